"""Replay of Grading.tla configurations into the real classy_blocks code,
with control of the only run-to-run nondeterminism (iteration order of the
id-hashed sets Axis.neighbours / Wire.coincidents) and a step budget."""

from __future__ import annotations

import os
import random
from typing import Any, Dict, List, Optional, Tuple

from . import bmd
from .common import Ctx


class Livelock(BaseException):
    """Raised by the step-budget wrapper (BaseException so that no library handler swallows it)"""


class OrderedSet(set):
    """A set whose iteration order is chosen by the harness (still a set for assertSetEqual & co.)"""

    def __init__(self, items, order: List[Any]):
        super().__init__(items)
        self._order = list(order)

    def __iter__(self):
        # iterate the harness-chosen order, restricted to current members
        members = set.copy(self)
        for x in self._order:
            if set.__contains__(members, x):
                yield x
        for x in set.__iter__(members):
            if x not in self._order:
                yield x


LAWS = {
    "A": dict(count=2),
    "B": dict(count=3, c2c_expansion=1.2),
    "C": dict(count=2, c2c_expansion=1.5),
    "D": dict(count=1, length_ratio=0.4),
    "E": dict(count=2, length_ratio=0.6, c2c_expansion=1.3),
}


def lattice_point(vid: int, spacing=None) -> Tuple[float, float, float]:
    x, y, z = vid % 6, (vid // 6) % 6, vid // 36
    if spacing is None:
        return (float(x), float(y), float(z))
    return (spacing[0][x], spacing[1][y], spacing[2][z])


def lattice_id(p, spacing=None, tol=1e-6) -> Optional[int]:
    if spacing is None:
        spacing = [[0.0, 1.0, 2.0, 3.0, 4.0, 5.0]] * 3
    idx = []
    for d in range(3):
        found = None
        for i, v in enumerate(spacing[d]):
            if abs(v - p[d]) < tol:
                found = i
        if found is None:
            return None
        idx.append(found)
    return idx[0] + 6 * idx[1] + 36 * idx[2]


def build_mesh(cfg: dict, spacing=None):
    import classy_blocks as cb

    mesh = cb.Mesh()
    ops = []
    for b in range(cfg["nb"]):
        pts = [lattice_point(v, spacing) for v in cfg["verts"][b]]
        op = cb.Loft(cb.Face(pts[:4]), cb.Face(pts[4:]))
        for a in range(3):
            for sec in cfg["chops"][b][a]:
                op.chop(a, **LAWS[sec["law"]])
        mesh.add(op)
        ops.append(op)
    return mesh, ops


def force_schedule(mesh, rng: random.Random) -> None:
    """Replace every neighbour/coincident set by one with a harness-chosen iteration order."""
    def key_axis(ax):
        return tuple(tuple(v.index for v in w.vertices) for w in ax.wires)

    def key_wire(w):
        return (tuple(v.index for v in w.vertices), w.axis, tuple(w.corners))

    for block in mesh.blocks:
        for axis in block.axes:
            items = sorted(axis.neighbours, key=key_axis)
            # several axes can have equal keys only if blocks are duplicates; keep stable
            rng.shuffle(items)
            axis.neighbours = OrderedSet(items, items)
            for wire in axis.wires:
                its = sorted(wire.coincidents, key=key_wire)
                rng.shuffle(its)
                wire.coincidents = OrderedSet(its, its)


def run_write(mesh, budget: int, tmpdir: str, tag: str = "m") -> Dict[str, Any]:
    """mesh.write() under a step budget; returns an outcome record"""
    from classy_blocks.base.exceptions import InconsistentGradingsError, UndefinedGradingsError
    from classy_blocks.items.block import Block

    calls = {"n": 0}
    orig = Block.copy_grading

    def counted(self):
        calls["n"] += 1
        if calls["n"] > budget:
            raise Livelock()
        return orig(self)

    path = os.path.join(tmpdir, f"{tag}.bmd")
    if os.path.exists(path):
        os.remove(path)
    Block.copy_grading = counted
    try:
        try:
            mesh.write(path)
            outcome = "Written"
        except UndefinedGradingsError:
            outcome = "Undefined"
        except InconsistentGradingsError:
            outcome = "Inconsistent"
        except Livelock:
            outcome = "Livelock"
        except Exception as err:  # pylint: disable=broad-except
            outcome = f"Exception:{type(err).__name__}"
    finally:
        Block.copy_grading = orig

    rec: Dict[str, Any] = {"outcome": outcome, "visits": calls["n"], "partial_file": False}
    if outcome == "Written":
        with open(path, encoding="utf-8") as f:
            text = f.read()
        rec["text"] = text
        try:
            rec["file"] = bmd.parse_blockmeshdict(text)
        except Exception as err:  # pylint: disable=broad-except
            rec["outcome"] = f"Unparsable:{type(err).__name__}"
    else:
        rec["partial_file"] = os.path.exists(path) and os.path.getsize(path) > 0
    return rec


def file_blocks_as_lattice(file: dict, spacing=None) -> List[dict]:
    """blocks of a parsed file with vertex indices mapped to lattice ids"""
    ids = [lattice_id(v["p"], spacing, tol=2e-8 * 4) for v in file["vertices"]]
    out = []
    for blk in file["blocks"]:
        out.append({"verts": [ids[i] for i in blk["v"]], "idx": blk["v"], "n": blk["n"], "kind": blk["kind"], "g": blk["g"]})
    return out
