"""Setup self-test: every spec parses; Hex.tla's derived tables equal the Python mirror."""

from __future__ import annotations

import glob
import os
import sys

from . import hexref
from .common import SPECS, MachineryError
from .tlc import run_tlc, sany


def hex_tables_agree() -> None:
    res = run_tlc("HexTables", "HexTables.cfg", workers=1, timeout=120)
    t = res.records[0]
    mine = hexref.tables()
    if t["axis_wires"] != mine["axis_wires"]:
        raise MachineryError(f"axis_wires differ: {t['axis_wires']} vs {mine['axis_wires']}")
    if {k: sorted(v) for k, v in t["side_corners"].items()} != mine["side_corners"]:
        raise MachineryError("side_corners differ")
    if sorted(t["rot_idx"]) != mine["rot_idx"]:
        raise MachineryError("rot_idx differ")
    if t["syms"] != mine["syms"]:
        raise MachineryError("syms differ")
    if t["lateral"] != mine["lateral"]:
        raise MachineryError("lateral differ")


def main() -> int:
    try:
        for path in sorted(glob.glob(os.path.join(SPECS, "*.tla"))):
            sany(os.path.splitext(os.path.basename(path))[0])
        hex_tables_agree()
    except MachineryError as err:
        print(f"SELFTEST FAILED: {err}", file=sys.stderr)
        return 2
    print("selftest ok")
    return 0


if __name__ == "__main__":
    sys.exit(main())
