"""Entry point: python -m harness.main <Cxx> [--tier quick|thorough] [--replay file]"""

from __future__ import annotations

import argparse
import importlib
import json
import os
import sys
import warnings

from .common import run_check


def main() -> int:
    ap = argparse.ArgumentParser()
    ap.add_argument("prop")
    ap.add_argument("--tier", default=os.environ.get("VERIF_TIER", "quick"), choices=["quick", "thorough"])
    ap.add_argument("--replay", default=None)
    args = ap.parse_args()

    warnings.simplefilter("ignore")
    seed = int(os.environ.get("VERIF_SEED", "0") or 0)
    prop = args.prop.upper()
    try:
        mod = importlib.import_module(f"harness.props.{prop.lower()}")
    except ModuleNotFoundError as err:
        print(f"no check for {prop}: {err}", file=sys.stderr)
        return 2

    if args.replay:
        with open(args.replay, encoding="utf-8") as f:
            data = json.load(f)
        if not hasattr(mod, "replay"):
            print("replay not supported for this property", file=sys.stderr)
            return 2
        return run_check(prop, args.tier, seed, lambda ctx: mod.replay(ctx, data))

    return run_check(prop, args.tier, seed, mod.run)


if __name__ == "__main__":
    sys.exit(main())
