"""Python mirror of specs/Hex.tla: the blockMesh hexahedron convention derived from
corner coordinates (never imported from classy_blocks). `selftest` compares these
tables with the ones TLC computes from Hex.tla (run by setup and by C10/C06)."""

from __future__ import annotations

import itertools
from typing import Dict, List, Tuple

XYZ = [(0, 0, 0), (1, 0, 0), (1, 1, 0), (0, 1, 0), (0, 0, 1), (1, 0, 1), (1, 1, 1), (0, 1, 1)]
CORNER_AT = {p: k for k, p in enumerate(XYZ)}

UVSEQ = [(0, 0), (1, 0), (1, 1), (0, 1)]


def _point_with(a: int, t: int, uv) -> Tuple[int, int, int]:
    others = [i for i in range(3) if i != a]
    p = [0, 0, 0]
    p[a] = t
    p[others[0]] = uv[0]
    p[others[1]] = uv[1]
    return tuple(p)  # type: ignore


# AXIS_WIRES[a][i] = (c1, c2): wire i of axis a in blockMesh edgeGrading order, directed 0 -> 1
AXIS_WIRES: List[List[Tuple[int, int]]] = [
    [(CORNER_AT[_point_with(a, 0, uv)], CORNER_AT[_point_with(a, 1, uv)]) for uv in UVSEQ] for a in range(3)
]
ALL_WIRES = [w for a in range(3) for w in AXIS_WIRES[a]]
EDGE_SET = {frozenset(w) for w in ALL_WIRES}

SIDE_COORD = {"left": (0, 0), "right": (0, 1), "front": (1, 0), "back": (1, 1), "bottom": (2, 0), "top": (2, 1)}
SIDE_CORNERS: Dict[str, frozenset] = {
    s: frozenset(k for k in range(8) if XYZ[k][c] == v) for s, (c, v) in SIDE_COORD.items()
}


def is_edge(a: int, b: int) -> bool:
    return sum(1 for i in range(3) if XYZ[a][i] != XYZ[b][i]) == 1


def edge_axis(a: int, b: int) -> int:
    return [i for i in range(3) if XYZ[a][i] != XYZ[b][i]][0]


def is_cycle(q) -> bool:
    return len(q) == 4 and all(is_edge(q[i], q[(i + 1) % 4]) for i in range(4))


def side_of(corner_set) -> str | None:
    cs = frozenset(corner_set)
    for s, c in SIDE_CORNERS.items():
        if c == cs:
            return s
    return None


def sides_at_corner(k: int) -> set:
    return {s for s, c in SIDE_CORNERS.items() if k in c}


def lateral_side(i: int) -> str:
    """side standing on bottom-face edge i -> i+1"""
    for s in ("front", "back", "left", "right"):
        if {i, (i + 1) % 4} <= SIDE_CORNERS[s]:
            return s
    raise ValueError(i)


PERMS3 = [(0, 1, 2), (0, 2, 1), (1, 0, 2), (1, 2, 0), (2, 0, 1), (2, 1, 0)]


def sym(n: int):
    """symmetry number n (1..48) of Hex!SymSeq -> list of 8 images"""
    pi = (n - 1) // 8
    fb = (n - 1) % 8
    p = PERMS3[pi]
    f = [(fb >> i) & 1 for i in range(3)]
    return [CORNER_AT[tuple(XYZ[k][p[i]] ^ f[i] for i in range(3))] for k in range(8)]


def perm_sign(p) -> int:
    return 1 if p in [(0, 1, 2), (1, 2, 0), (2, 0, 1)] else -1


def is_rotation(n: int) -> bool:
    pi = (n - 1) // 8
    fb = (n - 1) % 8
    return perm_sign(PERMS3[pi]) * (1 if bin(fb).count("1") % 2 == 0 else -1) == 1


ROT_IDX = [n for n in range(1, 49) if is_rotation(n)]
SYMS = {n: sym(n) for n in range(1, 49)}


def tables() -> dict:
    return {
        "axis_wires": [[list(w) for w in ws] for ws in AXIS_WIRES],
        "side_corners": {s: sorted(c) for s, c in SIDE_CORNERS.items()},
        "rot_idx": ROT_IDX,
        "syms": [SYMS[n] for n in range(1, 49)],
        "lateral": [lateral_side(i) for i in range(4)],
    }
