"""Abstract programs -> real API calls, parsed files -> abstract files, for Render.tla (C05/C06/C07/C10)."""

from __future__ import annotations

import math
import os
import random
from typing import Any, Dict, List, Optional, Tuple

from . import bmd, hexref

SIDES = ["bottom", "top", "left", "right", "front", "back"]


# ---------------------------------------------------------------- small vector helpers (harness' own)
def vsub(a, b):
    return [a[i] - b[i] for i in range(3)]


def vadd(a, b):
    return [a[i] + b[i] for i in range(3)]


def vmul(a, s):
    return [a[i] * s for i in range(3)]


def vdot(a, b):
    return sum(a[i] * b[i] for i in range(3))


def vcross(a, b):
    return [a[1] * b[2] - a[2] * b[1], a[2] * b[0] - a[0] * b[2], a[0] * b[1] - a[1] * b[0]]


def vnorm(a):
    # a position with a NaN in it is infinitely far from everything (so that "distance > tolerance" holds for it)
    n = math.sqrt(vdot(a, a))
    return float("inf") if n != n else n


def vunit(a):
    n = vnorm(a)
    return [x / n for x in a]


def vdist(a, b):
    return vnorm(vsub(a, b))


def perp_to(d, seed: int):
    """a unit vector perpendicular to d, chosen deterministically from seed"""
    cands = [[1.0, 0.3, 0.2], [0.2, 1.0, 0.3], [0.3, 0.2, 1.0], [1.0, -0.4, 0.5]]
    c = cands[seed % len(cands)]
    p = vcross(d, c)
    if vnorm(p) < 1e-6 * vnorm(d):
        p = vcross(d, cands[(seed + 1) % len(cands)])
    return vunit(p)


def angle_third_point(p1, p2, theta: float, axis) -> List[float]:
    """mid point of the arc from p1 to p2 obtained by turning p1 about `axis` by theta (right-hand rule);
    independent formula: mid = chord-mid + unit(dp x axis) * R (1 - cos(theta/2)), R = |chord| / (2 sin(theta/2)),
    chord taken perpendicular to the axis"""
    ax = vunit(axis)
    dp = vsub(p2, p1)
    along = vdot(dp, ax)
    chord = vsub(dp, vmul(ax, along))
    pm = vadd(p1, vmul(dp, 0.5))
    pm = vsub(pm, vmul(ax, 0.0))
    radius = vnorm(chord) / (2 * math.sin(theta / 2))
    u = vunit(vcross(chord, ax))
    return vadd(pm, vmul(u, radius * (1 - math.cos(theta / 2))))


def origin_third_point(p1, p2, origin) -> List[float]:
    """mid point of the circular arc p1 -> p2 centred at an equidistant origin (minor arc)"""
    pm = vmul(vadd(p1, p2), 0.5)
    radius = 0.5 * (vdist(p1, origin) + vdist(p2, origin))
    return vadd(origin, vmul(vunit(vsub(pm, origin)), radius))


# ---------------------------------------------------------------- geometry of a program
class Geometry:
    """position ids -> coordinates; edge-data ids -> concrete edge data"""

    def __init__(self, coords: Dict[int, List[float]]):
        self.coords = coords

    def pos(self, pid: int) -> List[float]:
        return self.coords[pid]

    def edge_points(self, op: dict, e: dict) -> Tuple[List[float], List[float]]:
        return self.pos(e["pa"]), self.pos(e["pb"])

    def edge_data(self, op: dict, e: dict) -> dict:
        """concrete data for user edge e (direction c1 -> c2)"""
        p1, p2 = self.edge_points(op, e)
        d = vsub(p2, p1)
        length = vnorm(d)
        n = perp_to(d, e["id"])
        mid = vmul(vadd(p1, p2), 0.5)
        kind = e["kind"]
        # every data id gets its own geometry so that the written data identifies the user's edge uniquely
        uniq = 1.0 + 0.037 * (e["id"] % 29)
        if kind == "arc":
            if e["degenerate"]:
                return {"point": vadd(p1, vmul(d, 0.3))}
            return {"point": vadd(mid, vmul(n, 0.2 * length * uniq))}
        if kind == "origin":
            origin = vsub(mid, vmul(n, 0.9 * length * uniq))
            return {"origin": origin, "third": origin_third_point(p1, p2, origin)}
        if kind == "angle":
            theta = [0.7, 1.1, 1.9][e["id"] % 3] * (1 + 0.01 * (e["id"] % 29))
            axis = vmul(n, 2.5)  # non-unit on purpose
            return {"angle": theta, "axis": axis, "third_fwd": angle_third_point(p1, p2, theta, axis),
                    "third_rev": angle_third_point(p2, p1, theta, axis)}
        if kind in ("spline", "polyLine"):
            pts = [vadd(vadd(p1, vmul(d, t)), vmul(n, h * length * uniq)) for t, h in ((0.2, 0.10), (0.45, 0.22), (0.8, 0.07))]
            return {"points": pts}
        if kind == "project":
            return {"labels": e["labels"]}
        raise ValueError(kind)


# ---------------------------------------------------------------- program -> real API
def make_edge_data(e: dict, data: dict):
    import classy_blocks as cb

    kind = e["kind"]
    if kind == "arc":
        return cb.Arc(data["point"])
    if kind == "origin":
        return cb.Origin(data["origin"])
    if kind == "angle":
        return cb.Angle(data["angle"], data["axis"])
    if kind == "spline":
        return cb.Spline(data["points"])
    if kind == "polyLine":
        return cb.PolyLine(data["points"])
    raise ValueError(kind)


def build_mesh(prog: dict, geo: Geometry):
    """Drives the real API from the abstract program. Fills in, per operation, what the real objects
    report after the face manipulations: op['pts'] (final corner order), op['fsteps'], op['get_face']."""
    import classy_blocks as cb

    def posid(p):
        best, bid = None, -1
        for pid, c in geo.coords.items():
            d = vdist(p, c)
            if d < 1e-6 * max(1.0, vnorm(c)) and (best is None or d < best):
                best, bid = d, pid
        return bid

    mesh = cb.Mesh()
    ops = []
    label_lists: Dict[tuple, list] = {}
    corner_lists: Dict[tuple, list] = {}
    for op in prog["ops"]:
        pts0 = [geo.pos(p) for p in op["pts0"]]
        # sub-tolerance jitter (0.3 * merge tolerance): must not change connectivity
        for c, j in enumerate(op.get("jitter", [])):
            if j:
                pts0[c] = [pts0[c][i] + 0.3e-7 * j[i] for i in range(3)]
        faces = {"bottom": cb.Face(pts0[:4]), "top": cb.Face(pts0[4:])}
        obj_ids: Dict[int, int] = {}
        for e in op["edges"]:
            if e["where"][0] in ("bottom", "top") and e["kind"] != "project":
                ed = make_edge_data(e, geo.edge_data(op, e))
                obj_ids[id(ed)] = e["id"]
                faces[e["where"][0]].add_edge(e["where"][1], ed)
        op["fsteps"] = {"bottom": [], "top": []}
        for fname in ("bottom", "top"):
            face = faces[fname]
            for step in op["fops"][fname]:
                if step[0] == "invert":
                    face.invert()
                elif step[0] == "shift":
                    face.shift(step[1])
                elif step[0] == "reorient":
                    target = face.points[step[1]].position
                    centre = face.center
                    face.reorient([target[i] + 0.1 * (target[i] - centre[i]) for i in range(3)])
                op["fsteps"][fname].append({"op": step[0], "arg": step[1] if len(step) > 1 else 0,
                                            "pts": [posid(p.position) for p in face.points],
                                            "eds": [obj_ids.get(id(x), 0) for x in face.edges]})
        loft = cb.Loft(faces["bottom"], faces["top"])
        op["pts"] = [posid(p) for p in loft.point_array]
        for e in op["edges"]:
            if e["where"][0] == "side":
                i = e["where"][1]
                e["pa"], e["pb"] = op["pts"][i], op["pts"][i + 4]
                if e["kind"] != "project":
                    loft.add_side_edge(i, make_edge_data(e, geo.edge_data(op, e)))
            if e["kind"] == "project" and not e.get("implicit"):
                c1, c2 = op["pts"].index(e["pa"]), op["pts"].index(e["pb"])
                if e.get("swap"):
                    c1, c2 = c2, c1
                first = e.get("first_labels", e["labels"])
                if e.get("extra") or op.get("share_project"):
                    label = first if len(first) > 1 else first[0]
                else:
                    # the caller's own list, one object for every edge given these labels in the whole program: it stays the
                    # caller's (not modified, not shared between the edges it was handed to)
                    label = label_lists.setdefault(tuple(first), list(first))
                if op.get("share_project") and not e.get("extra"):
                    # one Project object handed to every edge with these labels (as in Face(points, [Project(...)] * 4)):
                    # edge data without geometry of its own may be shared between the edges of an operation
                    shared = op.setdefault("_shared", {})
                    obj = shared.setdefault(tuple(e["labels"]), cb.Project(label))
                    lo, hi = min(c1, c2), max(c1, c2)
                    if hi - lo == 4:
                        loft.add_side_edge(lo, obj)
                    else:
                        face = loft.bottom_face if hi < 4 else loft.top_face
                        a, b = lo % 4, hi % 4
                        face.add_edge(a if b == (a + 1) % 4 else b, obj)
                else:
                    if e.get("extra"):
                        label = label_lists.setdefault(tuple(first), list(first))
                    loft.project_edge(c1, c2, label)
                    if e.get("extra"):
                        loft.project_edge(c1, c2, e["extra"])
        for a in range(3):
            loft.chop(a, count=prog.get("count", 2))
        if op["zone"]:
            loft.set_cell_zone(op["zone"])
        for s, name in zip(SIDES, op["patch"]):
            if name:
                loft.set_patch(s, name)
        def side_projections():
            for si, (s, label) in enumerate(zip(SIDES, op["sproj"])):
                if label:
                    flags = op["sproj_flags"][si]
                    loft.project_side(s, label, edges=flags[0], points=flags[1])

        def corner_projections():
            # labels are handed over as the caller's own list, one object for every corner given these labels in the whole
            # program (a single label as a string or as a one-element list): what one corner is projected to later must not
            # show up at another corner, nor in the caller's list
            for c, labels in enumerate(op["pproj_calls"]):
                if labels:
                    as_list = len(labels) > 1 or prog.get("corner_lists")
                    loft.project_corner(c, corner_lists.setdefault(tuple(labels), list(labels)) if as_list else labels[0])
            for c, label in op.get("pproj_more", []):
                loft.project_corner(int(c), label)
        # (the projections of a vertex are a set: the order of the calls is immaterial)
        for step in ((corner_projections, side_projections) if prog.get("corners_first") else (side_projections, corner_projections)):
            step()
        op["get_face"] = [[posid(p.position) for p in loft.get_face(s).points] for s in SIDES]
        op.pop("_shared", None)
        ops.append(loft)
        mesh.add(loft)
    for key, lst in list(label_lists.items()) + list(corner_lists.items()):
        if tuple(lst) != key:
            raise RuntimeError(f"a list of labels handed to project_edge / project_corner was modified: {list(key)} -> {lst}")
    for op, loft in zip(prog["ops"], ops):
        if op["deleted"]:
            mesh.delete(loft)
    if prog.get("reassemble"):
        # assemble() followed by clear() is a no-op for what is written later: nothing computed during the first
        # assembly (vertex tables, cached patch sets, edge data) may survive it
        mesh.assemble()
        # ... nor what was done to the vertices of that assembly (moved in place, no backport): the operations are the user's
        shake_vertices(mesh)
        mesh.clear()
    for pair in prog["merged"]:
        mesh.merge_patches(pair[0], pair[1])
    if prog["dflt"]:
        mesh.set_default_patch(prog["dflt"][0], prog["dflt"][1])
    for name, kind, settings in prog["mods"]:
        mesh.modify_patch(name, kind, settings)
    for label, props in prog.get("geom_calls", prog["geom"]):
        mesh.add_geometry({label: props})
    for key, val in prog["settings"]:
        mesh.settings[key] = val
    if prog.get("late_reassemble"):
        # everything said through the mesh (patch types and settings, default patch, merged pairs, geometry, settings) is the
        # user's model too: an assembly followed by backport() of untouched vertices, or by clear(), changes nothing written later
        mesh.assemble()
        if prog["late_reassemble"] == "backport":
            mesh.backport()
        else:
            mesh.clear()
    return mesh, ops


def shake_vertices(mesh) -> None:
    """moves the vertices of an assembled mesh in place (move_to / translate), each by another amount of the order of the model"""
    pts = [list(v.position) for v in mesh.vertices]
    size = max((vdist(p, pts[0]) for p in pts), default=1.0) or 1.0
    for n, v in enumerate(mesh.vertices):
        d = [0.31 * size * (1 + n % 3), -0.17 * size * (1 + n % 2), 0.23 * size]
        if n % 2:
            v.translate(d)
        else:
            v.move_to([v.position[i] + d[i] for i in range(3)])


NATURAL_EDGES = [(i, (i + 1) % 4) for i in range(4)] + [(i + 4, (i + 1) % 4 + 4) for i in range(4)] + [(i, i + 4) for i in range(4)]


# ---------------------------------------------------------------- file -> abstract
def abstract_file(parsed: dict, prog: dict, geo: Geometry, tol: float = 1e-6) -> dict:
    def posid(p):
        best, bid = None, -1
        for pid, c in geo.coords.items():
            d = vdist(p, c)
            if d < tol and (best is None or d < best):
                best, bid = d, pid
        return bid

    vpos = [posid(v["p"]) for v in parsed["vertices"]]
    vxyz = [list(v["p"]) for v in parsed["vertices"]]

    # candidate user edges for decoding
    cands = []
    for op in prog["ops"]:
        for e in op["edges"]:
            cands.append((op, e, geo.edge_data(op, e) if e["kind"] != "line" else {}))

    def close(a, b, scale):
        return vdist(a, b) < 1e-6 * max(1.0, scale)

    edges = []
    for fe in parsed["edges"]:
        # consistent: the curve blockMesh draws for this entry is the curve the user described
        rec = {"kind": fe["kind"], "v1": fe["v1"], "v2": fe["v2"], "id": 0, "consistent": True, "labels": []}
        ok = 0 <= fe["v1"] < len(vxyz) and 0 <= fe["v2"] < len(vxyz)
        if fe["kind"] == "project":
            rec["labels"] = sorted(fe["data"])
            for op, e, data in cands:
                if e["kind"] == "project" and sorted(e["labels"]) == rec["labels"] and ok:
                    a, b = geo.edge_points(op, e)
                    if {posid(a), posid(b)} == {vpos[fe["v1"]], vpos[fe["v2"]]}:
                        rec["id"] = e["id"]
        elif fe["kind"] == "arc" and ok:
            a, b = vxyz[fe["v1"]], vxyz[fe["v2"]]
            scale = vdist(a, b)
            for op, e, data in cands:
                if e["kind"] == "arc" and close(fe["data"], data["point"], scale):
                    rec["id"] = e["id"]
                elif e["kind"] == "origin" and close(fe["data"], data["third"], scale):
                    rec["id"] = e["id"]
                elif e["kind"] == "angle":
                    if close(fe["data"], data["third_fwd"], scale):
                        rec["id"] = e["id"]
                    elif close(fe["data"], data["third_rev"], scale):
                        rec["id"] = e["id"]
                        rec["consistent"] = False   # the arc bulges to the other side of the chord
        elif fe["kind"] in ("spline", "polyLine") and ok:
            a, b = vxyz[fe["v1"]], vxyz[fe["v2"]]
            scale = vdist(a, b)
            for op, e, data in cands:
                if e["kind"] in ("spline", "polyLine") and len(data["points"]) == len(fe["data"]):
                    p1, p2 = geo.edge_points(op, e)
                    fwd_pts = all(close(x, y, scale) for x, y in zip(fe["data"], data["points"]))
                    rev_pts = all(close(x, y, scale) for x, y in zip(fe["data"], data["points"][::-1]))
                    if not (fwd_pts or rev_pts):
                        continue
                    rec["id"] = e["id"]
                    v1_is_c1 = close(a, p1, scale)
                    rec["consistent"] = (v1_is_c1 and fwd_pts) or ((not v1_is_c1) and rev_pts)
        edges.append(rec)

    out = {
        "vpos": vpos,
        "vproj": [sorted(v["proj"]) for v in parsed["vertices"]],
        "blocks": [{"v": b["v"], "zone": b["zone"]} for b in parsed["blocks"]],
        "edges": edges,
        "faces": [{"quad": f["quad"], "label": f["label"]} for f in parsed["faces"]],
        "boundary": [{"name": p["name"], "type": p["type"], "settings": p["settings"], "quads": p["quads"]} for p in parsed["boundary"]],
        "dflt": [parsed["default"]["name"], parsed["default"]["type"]] if parsed["default"] else [],
        "merged": parsed["merge"],
        "geom": [[k, v] for k, v in parsed["geometry"].items()],
        "settings": [[k, v] for k, v in parsed["settings"].items()],
    }
    return out
