"""Shared run context for all property checks.

Exit codes: 0 property held on everything explored (known findings are
printed, not counted); 1 at least one VIOLATION not listed in
known_findings.json; 2 machinery failure (TLC crashed, spec-level invariant
failed, harness bug) -- never used to signal a property violation.
"""

from __future__ import annotations

import hashlib
import json
import os
import random
import shutil
import sys
import tempfile
import time
import traceback
from typing import Any, Dict, List, Optional

VERIF = os.path.dirname(os.path.dirname(os.path.abspath(__file__)))
REPO = os.environ.get("VERIF_REPO", "/repo")
SRC = os.path.join(REPO, "src")
SPECS = os.path.join(VERIF, "specs")

if SRC not in sys.path:
    sys.path.insert(0, SRC)


class MachineryError(Exception):
    """Something in the verification machinery (not the property) failed"""


def load_known_findings() -> List[dict]:
    path = os.path.join(VERIF, "known_findings.json")
    if not os.path.exists(path):
        return []
    with open(path, encoding="utf-8") as f:
        return json.load(f)["findings"]


class Ctx:
    """Collects coverage, violations and writes evidence for one check run."""

    def __init__(self, prop: str, tier: str, seed: int):
        self.prop = prop
        self.tier = tier
        self.seed = seed
        self.rng = random.Random(seed * 7919 + int(prop[1:]))
        self.t0 = time.time()
        self.tmp = tempfile.mkdtemp(prefix=f"verif_{prop}_")
        self.violations: List[dict] = []
        self.known_hits: Dict[str, dict] = {}
        self.drift: List[str] = []
        self.cov: Dict[str, Any] = {
            "states": 0,
            "transitions": 0,
            "traces_validated_against_impl": 0,
            "evaluations": 0,
            "samples": [],
        }
        self.nontrivial: set = set()
        self.notes: List[str] = []
        self.assumptions: List[str] = []
        self.tlc_runs: List[dict] = []
        self.exhaustive: Optional[bool] = None
        self.rule = ""
        self._known = [k for k in load_known_findings() if k.get("property") == prop and k.get("status") == "open"]

    # -- coverage ---------------------------------------------------------
    def sample(self, obj: Any, limit: int = 6) -> None:
        if len(self.cov["samples"]) < limit:
            self.cov["samples"].append(obj)

    def evaluated(self, key: Any = None, n: int = 1) -> None:
        """One more implementation evaluation; key identifies a distinct non-trivial case."""
        self.cov["evaluations"] += n
        if key is not None:
            self.nontrivial.add(key if isinstance(key, (str, int, tuple)) else json.dumps(key, sort_keys=True))

    def validated(self, n: int = 1) -> None:
        self.cov["traces_validated_against_impl"] += n

    def add_tlc(self, res: "Any") -> None:
        self.cov["states"] += res.distinct
        self.cov["transitions"] += res.generated
        self.tlc_runs.append({"spec": res.spec, "cfg": res.cfg, "distinct": res.distinct, "generated": res.generated,
                              "wall_s": round(res.wall, 2), "mode": res.mode})

    # -- verdicts ---------------------------------------------------------
    def violation(self, signature: str, what: str, replay: Any = None) -> None:
        """Report a property violation observed on the real code.

        signature: abstract, deterministic case key (no floats, no seeds).
        """
        for k in self._known:
            if k["signature"] == signature:
                if signature not in self.known_hits:
                    self.known_hits[signature] = {"what": k.get("description", what), "n": 0}
                self.known_hits[signature]["n"] += 1
                return
        self.violations.append({"signature": signature, "what": what, "replay": replay})

    def model_drift(self, what: str) -> None:
        if len(self.drift) < 50:
            self.drift.append(what)

    # -- end --------------------------------------------------------------
    def finish(self) -> int:
        wall = time.time() - self.t0
        rdir = os.path.join(VERIF, "replays" if not os.environ.get("VERIF_NO_EVIDENCE") else "replays/_mutants", self.prop)
        seen = set()
        lines = []
        for v in self.violations:
            if v["signature"] in seen:
                continue
            seen.add(v["signature"])
            os.makedirs(rdir, exist_ok=True)
            h = hashlib.sha1(v["signature"].encode()).hexdigest()[:12]
            path = os.path.join(rdir, f"{h}.json")
            with open(path, "w", encoding="utf-8") as f:
                json.dump({"property": self.prop, "signature": v["signature"], "what": v["what"],
                           "seed": self.seed, "tier": self.tier, "replay": v["replay"]}, f, indent=1, default=str)
            lines.append(f"VIOLATION property={self.prop} replay={path}  # {v['signature']}: {v['what']}")
        for sig, hit in sorted(self.known_hits.items()):
            print(f"KNOWN-FINDING: property={self.prop} {sig}: {hit['what']} (hit {hit['n']}x)")
        for d in self.drift[:10]:
            print(f"MODEL-DRIFT: property={self.prop} {d}")
        cov = dict(self.cov)
        cov["distinct_nontrivial"] = len(self.nontrivial)
        cov["rule"] = self.rule
        cov["tlc_runs"] = self.tlc_runs
        cov["known_findings_hit"] = sorted(self.known_hits)
        cov["model_drift"] = len(self.drift)
        cov["notes"] = self.notes
        if self.exhaustive is not None:
            cov["exhaustive"] = self.exhaustive
        if not cov["samples"]:
            cov["samples"] = ["(none)"]
        ev = {
            "property_id": self.prop,
            "tier": self.tier,
            "seed": self.seed,
            "level": "model_checking",
            "coverage": cov,
            "assumptions": self.assumptions,
            "wall_s": round(wall, 2),
            "violations": len(seen),
        }
        if not os.environ.get("VERIF_NO_EVIDENCE"):
            os.makedirs(os.path.join(VERIF, "evidence"), exist_ok=True)
            with open(os.path.join(VERIF, "evidence", f"{self.prop}.json"), "w", encoding="utf-8") as f:
                json.dump(ev, f, indent=1, default=str)
        for line in lines:
            print(line)
        print(f"[{self.prop}] tier={self.tier} seed={self.seed} states={cov['states']} transitions={cov['transitions']} "
              f"impl_evals={cov['evaluations']} traces_validated={cov['traces_validated_against_impl']} "
              f"violations={len(seen)} known={len(self.known_hits)} wall={wall:.1f}s")
        self.cleanup()
        return 1 if seen else 0

    def cleanup(self) -> None:
        shutil.rmtree(self.tmp, ignore_errors=True)


def run_check(prop: str, tier: str, seed: int, fn) -> int:
    ctx = Ctx(prop, tier, seed)
    try:
        fn(ctx)
        # vacuity guards
        if ctx.cov["states"] < 1 or ctx.cov["transitions"] < 1:
            raise MachineryError("TLC explored no states")
        if ctx.cov["evaluations"] < 1:
            raise MachineryError("no implementation evaluations were made")
        return ctx.finish()
    except MachineryError as err:
        print(f"MACHINERY-ERROR property={prop}: {err}", file=sys.stderr)
        ctx.cleanup()
        return 2
    except Exception as err:  # pylint: disable=broad-except
        # Not TLC / infrastructure (those raise MachineryError): the implementation either raised where the harness did
        # not expect it to, or returned something the judging code cannot even read (empty array, wrong shape, None).
        # On the unchanged tree no check does this for any seed, so it is reported as what it is - behaviour that
        # cannot be judged as conforming - with the traceback as the replay, and the rest of the run is abandoned.
        tb = traceback.extract_tb(err.__traceback__)
        where = next((f for f in reversed(tb) if os.sep + "harness" + os.sep in f.filename), tb[-1])
        traceback.print_exc()
        try:
            ctx.violation(f"unjudgeable:{type(err).__name__}:{os.path.basename(where.filename)}:{where.name}",
                          f"the implementation's behaviour could not be judged: {type(err).__name__}: {err}",
                          {"traceback": traceback.format_exc().splitlines()[-12:]})
            return ctx.finish()
        except Exception:  # pylint: disable=broad-except
            print(f"MACHINERY-ERROR property={prop}: unexpected exception in harness", file=sys.stderr)
            ctx.cleanup()
            return 2
