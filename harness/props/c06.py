"""C06 - decided by Render.tla on recorded executions of generated programs (see render.py)."""

from __future__ import annotations

from ..common import Ctx
from .. import examples
from . import render

FOCUS = {"C05": ["vertices"], "C06": ["file", "addressing"], "C07": ["edges"], "C10": ["addressing", "edges"]}["C06"]


def run(ctx: Ctx) -> None:
    ctx.rule = ("programs = random abstract user scripts (lattice hexahedra with random corner numbering, patches, merges, "
                "projections, edges, face manipulations, deletions); the written file is parsed and judged by TLC against "
                "Render.tla; non-trivial = more than one operation or any edge/projection; distinct by program content")
    n = 150 if ctx.tier == "quick" else 2500
    for focus in FOCUS:
        render.run_focus(ctx, "C06", focus, n // len(FOCUS))
    extra(ctx)


def extra(ctx: Ctx) -> None:
    # the repository's example scripts as recorded executions: File.tla well-formedness of every dictionary they write
    examples.judge_examples(ctx, "C06")
