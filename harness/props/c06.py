"""C06 - decided by Render.tla on recorded executions of generated programs (see render.py)."""

from __future__ import annotations

from ..common import Ctx
from .. import examples
from . import render

FOCUS = {"C05": ["vertices"], "C06": ["file", "addressing"], "C07": ["edges"], "C10": ["addressing", "edges"]}["C06"]


def run(ctx: Ctx) -> None:
    ctx.rule = ("programs = random abstract user scripts (lattice hexahedra with random corner numbering, patches, merges, "
                "projections, edges, face manipulations, deletions); the written file is parsed and judged by TLC against "
                "Render.tla; non-trivial = more than one operation or any edge/projection; distinct by program content")
    n = 150 if ctx.tier == "quick" else 2500
    for focus in FOCUS:
        render.run_focus(ctx, "C06", focus, n // len(FOCUS))
    extra(ctx)


def builtin_geometry(ctx: Ctx) -> None:
    """Shapes that define their own projection geometry (spheres): built, optionally PLACED by the library's transformations
    or copied, then written. Every label a face is projected to is defined in the geometry section, and the sphere defined
    there is the sphere the projected faces' vertices lie on (Render.tla C06_geometry_defined on the abstracted file)."""
    import os
    import random
    import re

    import classy_blocks as cb

    from .. import bmd
    from ..renderlib import vadd, vdist, vmul
    from .c07 import rot, scl

    rng = random.Random(ctx.seed + 606)
    for i in range(12 if ctx.tier == "quick" else 150):
        kind = rng.choice(["Hemisphere", "EighthSphere"])
        c0 = [rng.uniform(-3, 3) for _ in range(3)]
        r0 = rng.uniform(0.5, 3.0)
        steps = [rng.choice(["translate", "rotate", "scale", "copy"]) for _ in range(rng.choice([0, 1, 1, 2, 3]))]
        if i % 3 == 0 and "copy" not in steps:
            steps.append("copy")          # (every third shape: an edge on a second surface, then a copy - not left to chance)
        centre, radius = list(c0), r0
        try:
            if kind == "Hemisphere":
                shape = cb.Hemisphere(c0, vadd(c0, [r0, 0, 0]), [0, 0, 1])
            else:
                from classy_blocks.construct.shapes.sphere import EighthSphere
                shape = EighthSphere(c0, vadd(c0, [r0, 0, 0]), [0, 0, 1])
            second = rng.random() < 0.5 or i % 3 == 0
            if second:
                # one edge that lies on the sphere is projected to a second surface as well (its label list has two entries)
                cand = [(op, c1, c2) for op in shape.operations for c1, c2, data in op.edges.get_all_beams()
                        if data.kind == "project" and shape.geometry_label in data.label]
                if cand:
                    op, c1, c2 = rng.choice(cand)
                    op.project_edge(c1, c2, "floor")
                    steps = ["second-surface"] + steps
            for st in steps:
                if st == "second-surface":
                    continue
                if st == "translate":
                    d = [rng.uniform(-4, 4) for _ in range(3)]
                    shape.translate(d)
                    centre = vadd(centre, d)
                elif st == "rotate":
                    a, ax, o = rng.uniform(-2, 2), [rng.uniform(-1, 1) for _ in range(3)], [rng.uniform(-2, 2) for _ in range(3)]
                    shape.rotate(a, ax, o)
                    centre = rot(centre, a, ax, o)
                elif st == "scale":
                    k, o = rng.choice([0.5, 2.0]), [rng.uniform(-2, 2) for _ in range(3)]
                    shape.scale(k, o)
                    centre, radius = scl(centre, k, o), radius * k
                else:
                    shape = shape.copy()
            shape.chop_axial(count=2)
            shape.chop_radial(count=2)
            shape.chop_tangential(count=2)
            mesh = cb.Mesh()
            mesh.add(shape)
            mesh.add_geometry({"floor": ["type searchablePlane", "planeType pointAndNormal", "point (0 0 0)", "normal (0 0 1)"]})
            path = os.path.join(ctx.tmp, "sphere.bmd")
            if os.path.exists(path):
                os.remove(path)
            mesh.write(path)
            with open(path, encoding="utf-8") as f:
                parsed = bmd.parse_blockmeshdict(f.read())
            if rng.random() < 0.5:
                # written once; then moved again, the mesh cleared and written a second time: the geometry follows the shape
                d2 = [rng.uniform(-4, 4) for _ in range(3)]
                shape.translate(d2)
                centre = vadd(centre, d2)
                steps = steps + ["write", "translate", "clear"]
                mesh.clear()
                os.remove(path)
                mesh.write(path)
                with open(path, encoding="utf-8") as f:
                    parsed = bmd.parse_blockmeshdict(f.read())
        except Exception as err:  # pylint: disable=broad-except
            ctx.violation(f"builtin-geometry:{kind}:raises:{type(err).__name__}", f"{kind} after {steps} could not be written: {err}", {"steps": steps})
            continue
        tag = "+".join(sorted(set(steps))) or "as-created"
        ctx.evaluated(f"builtin:{kind}:{steps}:{i}")
        used = {q["label"] for q in parsed["faces"]}
        defined = parsed["geometry"]
        everywhere = used | {l for e in parsed["edges"] if e["kind"] == "project" for l in e["data"]} | {l for v in parsed["vertices"] for l in v["proj"]}
        if not used or not everywhere <= set(defined):
            used = everywhere
            ctx.violation(f"builtin-geometry:{kind}:undefined-label:{tag}", f"projected to {sorted(used)}, defined {sorted(defined)}", {"steps": steps})
            continue
        V = [list(v["p"]) for v in parsed["vertices"]]
        for q in parsed["faces"]:
            if q["label"] == "floor":
                continue
            props = " ".join(defined[q["label"]])
            m_c = re.search(r"centre\s*\(([^)]*)\)", props)
            m_r = re.search(r"radius\s+([-+0-9.eE]+)", props)
            if not (m_c and m_r):
                ctx.violation(f"builtin-geometry:{kind}:unreadable:{tag}", f"geometry {q['label']}: {props}", {"steps": steps})
                break
            fc, fr = [float(x) for x in m_c.group(1).split()], float(m_r.group(1))
            off = max(abs(vdist(V[i2], fc) - fr) for i2 in q["quad"])
            if off > 1e-5 * radius or vdist(fc, centre) > 1e-5 * radius or abs(fr - radius) > 1e-5 * radius:
                ctx.violation(f"builtin-geometry:{kind}:stale-sphere:{tag}",
                              f"the sphere written for {q['label']} (centre {fc}, radius {fr}) is not the one its projected face lies on "
                              f"(centre {centre}, radius {radius}; vertices off by {off:.3g})", {"steps": steps})
                break
        ctx.validated()


def extra(ctx: Ctx) -> None:
    builtin_geometry(ctx)
    # the repository's example scripts as recorded executions: File.tla well-formedness of every dictionary they write
    examples.judge_examples(ctx, "C06")
