"""C20 - construction and life-cycle preconditions are enforced symmetrically.

Precond.tla defines precondition TYPES (index range, item count, perpendicular, positive, ratio in (0,1], below a
bound, open angle, requires-assembled, unique, exists) with argument classes on both sides of every boundary and
derives accept/reject for every (call, class) row from the type; TLC checks symmetry and that both sides are
exercised.  The registry below maps every row to a concrete call of the real API in a randomly placed setting;
"rejected" means any exception, "accepted" a normal return.
"""

from __future__ import annotations

import math
import random
from typing import Callable, Dict

from ..common import Ctx, MachineryError
from ..tlc import run_tlc
from .c08 import similarity


def registry(rng: random.Random) -> Dict[str, Callable[[int], Callable[[], object]]]:
    import classy_blocks as cb
    import numpy as np
    from classy_blocks.grading.chop import Chop
    from classy_blocks.grading.grading import Grading
    from classy_blocks.items.block import Block
    from classy_blocks.items.side import Side
    from classy_blocks.items.vertex import Vertex
    from classy_blocks.construct.array import Array
    from classy_blocks.construct.point import Point
    from classy_blocks.util.frame import Frame
    from classy_blocks.items.edges.factory import factory

    point, vector, scale = similarity(rng)

    def quad(z=0.0):
        return [point([0, 0, z]), point([1, 0, z]), point([1, 1, z]), point([0, 1, z])]

    def box():
        return cb.Loft(cb.Face(quad(0)), cb.Face(quad(1)))

    def arc():
        return cb.Arc(point([0.5, -0.2, 0]))

    def verts(n=8):
        pts = quad(0) + quad(1)
        return [Vertex(pts[i % 8], i) for i in range(n)]

    def partner(v):
        """a corner joined to corner v by a block edge (corner 0 for out-of-range v: the range check must fire first)"""
        from .. import hexref
        for (a, b) in hexref.ALL_WIRES:
            if a == v:
                return b
            if b == v:
                return a
        return 0

    axis0, axis1 = point([0, 0, 0]), point([0, 0, 2])
    ez, ex = vector([0, 0, 1]), vector([1, 0, 0])

    def radius_point(dev_tenths):
        # radius vector leaning dev/10 towards the axis direction (+ or -)
        return [axis0[i] + scale * (ex[i] + dev_tenths / 10.0 * ez[i]) for i in range(3)]

    def axis_end(which):
        length = 4e-6 / scale if which == "short" else 1e4 * scale
        return [axis0[i] + length * ez[i] for i in range(3)]

    def cylinder():
        return cb.Cylinder(axis0, axis1, radius_point(0))

    def sketches(n_faces):
        # classes "fewer / exactly / more faces than 4": grids of 1, 2 or 3 columns by 2 rows - the larger one contains the
        # 2 x 2 addressing, so that nothing but the face-count check itself can reject it
        return cb.Grid([0, 0, 0], [1, 1, 0], 1 if n_faces < 4 else (2 if n_faces == 4 else 3), 2)

    def shell_of_three(solitary_at):
        # two squares sharing an edge and a third one either next to them (0) or far away, standing first, second or third
        def sq(x0, y0):
            return cb.Face([point([x0, y0, 0]), point([x0 + 1, y0, 0]), point([x0 + 1, y0 + 1, 0]), point([x0, y0 + 1, 0])])
        joined = [sq(0, 0), sq(1, 0)]
        third = sq(2, 0) if solitary_at == 0 else sq(7, 5)
        faces = joined + [third] if solitary_at in (0, 3) else ([third] + joined if solitary_at == 1 else [joined[0], third, joined[1]])
        return cb.Shell(faces, 0.3 * scale)

    def mesh_with_box():
        m = cb.Mesh()
        b = box()
        for a in range(3):
            b.chop(a, count=2)
        m.add(b)
        return m

    def optimizer(far=False):
        m = cb.Mesh() if far else mesh_with_box()
        if far:
            b = box().translate([300.0, -250.0, 400.0])
            for a in range(3):
                b.chop(a, count=2)
            m.add(b)
        m.assemble()
        return cb.MeshOptimizer(m, report=False), m

    reg: Dict[str, Callable[[int], Callable[[], object]]] = {
        "Face.points": lambda v: lambda: cb.Face((quad(0) + quad(1))[:v]),
        "Face.edges": lambda v: lambda: cb.Face(quad(0), [None] * v),
        "Face.add_edge.corner": lambda v: lambda: cb.Face(quad(0)).add_edge(v, arc()),
        "Operation.add_side_edge.corner": lambda v: lambda: box().add_side_edge(v, arc()),
        "Operation.project_corner.corner": lambda v: lambda: box().project_corner(v, "geo"),
        "Operation.chop.axis": lambda v: lambda: box().chop(v, count=3),
        "Block.add_edge.corner": lambda v: lambda: (lambda vs: Block(0, vs).add_edge(v, partner(v), factory.create(vs[0], vs[1], arc())))(verts()),
        "Point.coordinates": lambda v: lambda: Point([1.0, 2.0, 3.0, 4.0][:v]),
        "Array.points": lambda v: lambda: Array([point([i, 0, 0]) for i in range(v)]) if v > 0 else Array(np.zeros((0, 3))),
        "Side.vertices": lambda v: lambda: Side("top", verts(v)),
        "Project.labels": lambda v: lambda: cb.Project([f"g{i}" for i in range(v)]),
        "Operation.project_edge.surfaces": lambda v: lambda: [box_.project_edge(0, 1, f"g{i}") for box_ in [box()] for i in range(v)] if v > 0 else box().project_edge(0, 1, []),
        "Grading.add_chop.length_ratio": lambda v: lambda: Grading(1.0).add_chop(Chop(length_ratio=v / 10.0, count=3)),
        "ExtrudedRing.inner_radius": lambda v: lambda: cb.ExtrudedRing(axis0, axis1, radius_point(0), scale * v / 10.0),
        "ExtrudedRing.contract.inner_radius": lambda v: lambda: cb.ExtrudedRing.contract(cb.ExtrudedRing(axis0, axis1, [axis0[i] + 2 * scale * ex[i] for i in range(3)], scale), scale * v / 10.0),
        "Cylinder.radius_vector": lambda v: lambda: cb.Cylinder(axis0, axis1, radius_point(v)),
        "SemiCylinder.radius_vector": lambda v: lambda: cb.SemiCylinder(axis0, axis1, radius_point(v)),
        "Frustum.radius_vector": lambda v: lambda: cb.Frustum(axis0, axis1, radius_point(v), 0.5 * scale),
        "ExtrudedRing.radius_vector": lambda v: lambda: cb.ExtrudedRing(axis0, axis1, radius_point(v), 0.3 * scale),
        # axis of length 4e-6 / scale (short) or 1e4 * scale (long); the radius point leans by v thousandths of the radius
        "Cylinder.radius_vector.short_axis": lambda v: lambda: cb.Cylinder(axis0, axis_end("short"), radius_point(v / 100.0)),
        "SemiCylinder.radius_vector.short_axis": lambda v: lambda: cb.SemiCylinder(axis0, axis_end("short"), radius_point(v / 100.0)),
        "Frustum.radius_vector.short_axis": lambda v: lambda: cb.Frustum(axis0, axis_end("short"), radius_point(v / 100.0), 0.5 * scale),
        "ExtrudedRing.radius_vector.short_axis": lambda v: lambda: cb.ExtrudedRing(axis0, axis_end("short"), radius_point(v / 100.0), 0.3 * scale),
        "Cylinder.radius_vector.long_axis": lambda v: lambda: cb.Cylinder(axis0, axis_end("long"), radius_point(v / 100.0)),
        "SemiCylinder.radius_vector.long_axis": lambda v: lambda: cb.SemiCylinder(axis0, axis_end("long"), radius_point(v / 100.0)),
        "Frustum.radius_vector.long_axis": lambda v: lambda: cb.Frustum(axis0, axis_end("long"), radius_point(v / 100.0), 0.5 * scale),
        "ExtrudedRing.radius_vector.long_axis": lambda v: lambda: cb.ExtrudedRing(axis0, axis_end("long"), radius_point(v / 100.0), 0.3 * scale),
        "Cylinder.chain.length": lambda v: lambda: cb.Cylinder.chain(cylinder(), scale * v / 10.0),
        "Frustum.chain.length": lambda v: lambda: cb.Frustum.chain(cylinder(), scale * v / 10.0, 0.5 * scale),
        "ExtrudedRing.chain.length": lambda v: lambda: cb.ExtrudedRing.chain(cb.ExtrudedRing(axis0, axis1, radius_point(0), 0.4 * scale), scale * v / 10.0),
        "Cylinder.chain.length.start_face": lambda v: lambda: cb.Cylinder.chain(cylinder(), scale * v / 10.0, start_face=True),
        "Frustum.chain.length.start_face": lambda v: lambda: cb.Frustum.chain(cylinder(), scale * v / 10.0, 0.5 * scale, start_face=True),
        "ExtrudedRing.chain.length.start_face": lambda v: lambda: cb.ExtrudedRing.chain(cb.ExtrudedRing(axis0, axis1, radius_point(0), 0.4 * scale),
                                                                                       scale * v / 10.0, start_face=True),
        "LoftedShape.face_counts": lambda v: lambda: cb.LoftedShape(sketches(4), sketches(v).translate([0, 0, 1])),
        "LoftedShape.mid_face_counts": lambda v: lambda: cb.LoftedShape(sketches(4), sketches(4).translate([0, 0, 2]), sketches(v).translate([0, 0, 1])),
        "LoftedShape.mid_list_first": lambda v: lambda: cb.LoftedShape(sketches(4), sketches(4).translate([0, 0, 2]),
                                                                         [sketches(v).translate([0, 0, 0.7]), sketches(4).translate([0, 0, 1.4])]),
        "LoftedShape.mid_list_second": lambda v: lambda: cb.LoftedShape(sketches(4), sketches(4).translate([0, 0, 2]),
                                                                          [sketches(4).translate([0, 0, 0.7]), sketches(v).translate([0, 0, 1.4])]),
        "Angle.angle": lambda v: lambda: factory.create(Vertex(point([1, 0, 0]), 0), Vertex(point([0, 1, 0]), 1), cb.Angle(v * math.pi / 2 if abs(v) != 1 else v * math.pi / 2, ez)).third_point,
        "Shell.chop.faces": lambda v: lambda: shell_of_three(v).chop(count=2),
        "Curve.param": lambda v: lambda: cb.DiscreteCurve([point([i, i * i, 0]) for i in range(4)]).get_point(v),
        "Frame.add_beam.pair": lambda v: lambda: Frame().add_beam(0, 1 if v == 1 else 2, "x"),
        # class 2: assembled and cleared again - clear() undoes assemble(), the precondition is gone
        "Mesh.grade": lambda v: lambda: (lambda m: (m.assemble() if v >= 1 else None, m.clear() if v == 2 else None, m.grade()))(mesh_with_box()),
        "Mesh.backport": lambda v: lambda: (lambda m: (m.assemble() if v >= 1 else None, m.clear() if v == 2 else None, m.backport()))(mesh_with_box()),
    }

    def clamp_twice(v):  # noqa: E306
        def run():
            opt, m = optimizer()
            for _ in range(v):
                opt.add_clamp(cb.FreeClamp(m.vertices[0].position))
        return run

    def clamp_position(v, far=False):
        def run():
            opt, m = optimizer(far)
            miss = 1e-3 if far else 0.31 * scale
            p = list(m.vertices[0].position) if v == 1 else [x + miss for x in m.vertices[0].position]
            opt.add_clamp(cb.FreeClamp(p))
        return run

    def link(which, far=False):
        def make(v):
            def run():
                opt, m = optimizer(far)
                lead, foll = list(m.vertices[0].position), list(m.vertices[1].position)
                off = [x + (1e-3 if far else 0.37 * scale) for x in (lead if which == "leader" else foll)]
                if v == 0:
                    if which == "leader":
                        lead = off
                    else:
                        foll = off
                opt.add_link(cb.TranslationLink(lead, foll))
            return run
        return make

    reg["Optimizer.add_clamp.second"] = clamp_twice
    reg["Optimizer.add_clamp.position"] = clamp_position
    reg["Optimizer.add_link.leader"] = link("leader")
    reg["Optimizer.add_link.follower"] = link("follower")
    reg["Optimizer.add_clamp.position.far"] = lambda v: clamp_position(v, far=True)
    reg["Optimizer.add_link.leader.far"] = link("leader", far=True)
    reg["Optimizer.add_link.follower.far"] = link("follower", far=True)
    return reg


def run(ctx: Ctx) -> None:
    ctx.rule = ("rows = (guarded call, argument class) of Precond.tla with the accept/reject expectation derived from the "
                "precondition type; each row is executed in several random placements; non-trivial = every row; distinct by row")
    res = run_tlc("Precond", "Precond.cfg", workers=1, timeout=300)
    ctx.add_tlc(res)
    rows = [r for r in res.records if "call" in r]
    if len(rows) < 80:
        raise MachineryError("Precond.tla emitted too few rows")
    rng = random.Random(ctx.seed + 20)
    reps = 2 if ctx.tier == "quick" else 10
    missing = set()
    for rep in range(reps):
        reg = registry(rng)
        for row in rows:
            make = reg.get(row["call"])
            if make is None:
                missing.add(row["call"])
                continue
            ctx.evaluated(f"{row['call']}:{row['class']}")
            try:
                make(row["class"])()
                outcome, exc = "accept", None
            except Exception as err:  # pylint: disable=broad-except
                outcome, exc = "reject", type(err).__name__
            ctx.validated()
            if outcome != row["expect"]:
                kind = "accepted-silently" if outcome == "accept" else "valid-arguments-rejected"
                ctx.violation(f"precond:{kind}:{row['call']}:{row['class']}",
                              f"{row['call']} with class {row['class']} ({row['type']}): expected {row['expect']}, got {outcome}" + (f" ({exc})" if exc else ""),
                              {"row": row})
    if missing:
        raise MachineryError(f"no concrete call registered for {sorted(missing)}")
    ctx.sample(rows[0])
    ctx.sample(rows[-1])
    ctx.exhaustive = True
