"""Mode B for C01/C02: random assemblies of real shapes are executed, the topology that
Mesh.assemble() produced, the user's chops and the outcome of Mesh.write() are recorded,
and TLC (GradingJudge.tla) decides every record against the declarative family statement."""

from __future__ import annotations

import json
import math
import os
import random
from typing import Dict, List, Tuple

from .. import hexref
from ..common import Ctx, MachineryError
from ..gradelib import force_schedule, run_write
from ..tlc import run_tlc

CLAUSE_PROP = {"agree": "C01", "noSilentConflict": "C01", "conflictClass": "C01", "complete": "C02", "under": "C02"}


def _rand_frame(rng: random.Random):
    """random orthonormal frame + origin (harness' own quaternion code)"""
    q = [rng.gauss(0, 1) for _ in range(4)]
    n = math.sqrt(sum(x * x for x in q))
    w, x, y, z = [c / n for c in q]
    rot = [
        [1 - 2 * (y * y + z * z), 2 * (x * y - z * w), 2 * (x * z + y * w)],
        [2 * (x * y + z * w), 1 - 2 * (x * x + z * z), 2 * (y * z - x * w)],
        [2 * (x * z - y * w), 2 * (y * z + x * w), 1 - 2 * (x * x + y * y)],
    ]
    org = [rng.uniform(-3, 3) for _ in range(3)]
    return rot, org


def _apply(rot, org, p, s=1.0):
    return [org[i] + s * sum(rot[i][j] * p[j] for j in range(3)) for i in range(3)]


def make_entities(kind: str, rng: random.Random):
    """returns a list of entities (operations/shapes/stacks) forming one assembly"""
    import classy_blocks as cb

    rot, org = _rand_frame(rng)
    s = 10 ** rng.uniform(-1, 1)

    def P(p):
        return _apply(rot, org, p, s)

    if kind == "boxes":
        cells = [(i, j, k) for i in range(3) for j in range(2) for k in range(2)]
        rng.shuffle(cells)
        cells = cells[: rng.randint(2, 5)]
        sp = [sorted(rng.sample([0.0, 0.7, 1.0, 1.6, 2.5, 3.1, 4.0], 4)) for _ in range(3)]
        ents = []
        for c in cells:
            rotn = rng.choice(hexref.ROT_IDX)
            img = hexref.SYMS[rotn]
            pts = []
            for k in range(8):
                xyz = hexref.XYZ[img[k]]
                pts.append(P([sp[d][c[d] + xyz[d]] for d in range(3)]))
            ents.append(cb.Loft(cb.Face(pts[:4]), cb.Face(pts[4:])))
        return ents
    if kind == "cylinder":
        return [cb.Cylinder(P([0, 0, 0]), P([0, 0, 2]), P([1, 0, 0]))]
    if kind == "semicylinder":
        return [cb.SemiCylinder(P([0, 0, 0]), P([0, 0, 2]), P([1, 0, 0]))]
    if kind == "ring":
        return [cb.ExtrudedRing(P([0, 0, 0]), P([0, 0, 1.5]), P([2, 0, 0]), 1.0 * s, n_segments=rng.choice([4, 5, 8]))]
    if kind == "cyl_ring":
        cyl = cb.Cylinder(P([0, 0, 0]), P([0, 0, 2]), P([1, 0, 0]))
        ring = cb.ExtrudedRing.expand(cyl, 0.5 * s)
        return [cyl, ring]
    if kind == "cyl_chain":
        cyl = cb.Cylinder(P([0, 0, 0]), P([0, 0, 2]), P([1, 0, 0]))
        nxt = cb.Cylinder.chain(cyl, 1.0 * s)
        return [cyl, nxt]
    if kind == "frustum":
        return [cb.Frustum(P([0, 0, 0]), P([0, 0, 2]), P([1, 0, 0]), 0.5 * s)]
    if kind == "stack":
        grid = cb.Grid([0, 0, 0], [2, 1, 0], rng.randint(1, 3), rng.randint(1, 2))
        st = cb.ExtrudedStack(grid, 2.0, rng.randint(1, 2))
        return [st]
    if kind == "ring_fill":
        ring = cb.ExtrudedRing(P([0, 0, 0]), P([0, 0, 1.5]), P([2, 0, 0]), 1.0 * s, n_segments=8)
        return [ring, cb.Cylinder.fill(ring)]
    raise ValueError(kind)


KINDS = ["boxes", "boxes", "boxes", "cylinder", "semicylinder", "ring", "cyl_ring", "cyl_chain", "frustum", "stack", "ring_fill"]


def ops_of(entities) -> list:
    from classy_blocks.construct.operations.operation import Operation

    ops = []
    for e in entities:
        ops += [e] if isinstance(e, Operation) else list(e.operations)
    return ops


def families(blocks: List[List[int]]) -> Dict[Tuple[int, int], int]:
    """union-find over nodes sharing an (unordered) edge -- used only to GUIDE chop placement"""
    parent: Dict[Tuple[int, int], Tuple[int, int]] = {}

    def find(x):
        while parent[x] != x:
            parent[x] = parent[parent[x]]
            x = parent[x]
        return x

    edge_owner: Dict[frozenset, Tuple[int, int]] = {}
    for b, idx in enumerate(blocks):
        for a in range(3):
            parent[(b, a)] = (b, a)
    for b, idx in enumerate(blocks):
        for a in range(3):
            for (c1, c2) in hexref.AXIS_WIRES[a]:
                e = frozenset((idx[c1], idx[c2]))
                if e in edge_owner:
                    r1, r2 = find(edge_owner[e]), find((b, a))
                    parent[r1] = r2
                else:
                    edge_owner[e] = (b, a)
    roots = {}
    out = {}
    for n in parent:
        r = find(n)
        out[n] = roots.setdefault(r, len(roots))
    return out


def one_record(rid: int, rng: random.Random, ctx: Ctx) -> dict | None:
    import classy_blocks as cb

    kind = rng.choice(KINDS)
    seed = rng.random()
    # dry run for the topology
    ents = make_entities(kind, random.Random(seed))
    dry = cb.Mesh()
    for e in ents:
        dry.add(e)
    try:
        dry.assemble()
    except Exception:  # pylint: disable=broad-except
        return None
    topo = [list(b.indexes) for b in dry.blocks]
    if any(len(set(t)) != 8 for t in topo):
        return None  # degenerate (collapsed) blocks are out of scope here
    fam = families(topo)
    nfam = len(set(fam.values()))
    members: Dict[int, list] = {}
    for n, f in fam.items():
        members.setdefault(f, []).append(n)

    mode = rng.choice(["cover", "cover", "conflict", "under", "redundant", "both"])
    user = [[0, 0, 0] for _ in topo]
    plan: List[Tuple[int, int, list]] = []
    fams = sorted(members)
    skip = set()
    if mode in ("under", "both") and nfam > 0:
        skip.add(rng.choice(fams))
    for f in fams:
        if f in skip:
            continue
        n = rng.choice(sorted(members[f]))
        cnt = rng.randint(1, 6)
        plan.append((n[0], n[1], _sections(cnt, rng)))
        extra = sorted(set(members[f]) - {n})
        if extra and mode in ("conflict", "both") and rng.random() < 0.5:
            m = rng.choice(extra)
            plan.append((m[0], m[1], _sections(cnt + rng.randint(1, 3), rng)))
        elif extra and mode == "redundant" and rng.random() < 0.5:
            m = rng.choice(extra)
            plan.append((m[0], m[1], _sections(cnt, rng)))

    ents = make_entities(kind, random.Random(seed))
    ops = ops_of(ents)
    for (b, a, secs) in plan:
        for kw in secs:
            ops[b].chop(a, **kw)
            user[b][a] += kw["count"]
    mesh = cb.Mesh()
    for e in ents:
        mesh.add(e)
    try:
        mesh.assemble()
    except Exception:  # pylint: disable=broad-except
        return None
    blocks = [list(b.indexes) for b in mesh.blocks]
    force_schedule(mesh, random.Random(rng.random()))
    nb = len(blocks)
    obs = run_write(mesh, 8 * (4 * nb + 2) * nb + 50, ctx.tmp)
    counts = [[0, 0, 0] for _ in blocks]
    outcome = obs["outcome"]
    if outcome == "Written":
        fb = obs["file"]["blocks"]
        if [x["v"] for x in fb] != blocks:
            outcome = "Exception:BlocksDiffer"
        else:
            counts = [x["n"] for x in fb]
    if obs.get("partial_file"):
        outcome = "PartialFile"
    return {"id": rid, "kind": kind, "mode": mode, "nb": nb, "blocks": blocks, "user": user,
            "outcome": outcome.split(":")[0], "detail": outcome, "counts": counts, "nfam": nfam}


def _sections(cnt: int, rng: random.Random) -> list:
    r = rng.random()
    if r < 0.5 or cnt < 2:
        return [dict(count=cnt)]
    if r < 0.8:
        return [dict(count=cnt, c2c_expansion=rng.choice([0.8, 1.1, 1.25]))]
    a = rng.randint(1, cnt - 1)
    second = dict(count=cnt - a, length_ratio=0.5)
    if cnt - a >= 2:
        second["total_expansion"] = rng.choice([0.5, 2.0])
    return [dict(count=a, length_ratio=0.5), second]


def random_assemblies(ctx: Ctx, prop: str, n: int) -> None:
    rng = random.Random(ctx.seed * 104729 + 17)
    recs = []
    tries = 0
    while len(recs) < n and tries < 3 * n:
        tries += 1
        r = one_record(len(recs) + 1, rng, ctx)
        if r is not None:
            recs.append(r)
    if not recs:
        raise MachineryError("no random assembly could be built")
    path = os.path.join(ctx.tmp, "grading_records.json")
    with open(path, "w", encoding="utf-8") as f:
        json.dump({"recs": recs}, f)
    res = run_tlc("GradingJudge", "GradingJudge.cfg", env={"VERIF_TRACE_FILE": path}, workers=1, timeout=900)
    ctx.add_tlc(res)
    verdicts = {v["id"]: v for v in res.records}
    if len(verdicts) != len(recs):
        raise MachineryError(f"TLC judged {len(verdicts)} of {len(recs)} records")
    for r in recs:
        ctx.evaluated(f"asm:{r['kind']}:{r['mode']}:{r['nb']}:{r['nfam']}")
        ctx.validated()
        fails = [c for c in verdicts[r["id"]]["fails"] if CLAUSE_PROP[c] == prop]
        for c in fails:
            ctx.violation(f"judge:{c}:{r['outcome']}", f"{r['kind']} assembly ({r['mode']} chops): clause {c} rejected, outcome {r['outcome']}",
                          {"record": r})
    ctx.sample({k: recs[0][k] for k in ("kind", "mode", "nb", "user", "outcome", "counts")})
