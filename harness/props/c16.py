"""C16 - curve points, lengths and closest-parameter queries are mutually consistent.

Curve.tla enumerates exact lattice polylines with integer segment lengths (uneven spacing), the exact point
at rational arc lengths and the exact length between them (TLC also checks additivity / knot identities of
the specification itself).  The harness maps every instance by a random similarity and evaluates
LinearInterpolatedCurve, SplineInterpolatedCurve, DiscreteCurve (points, discretize, length in either order,
additivity, closest parameter) and curve-snapped edges against those exact values; circle and line curves are
evaluated on Arc.tla's exact circle instances.
"""

from __future__ import annotations

import math
import random
from fractions import Fraction
from typing import List

from ..common import Ctx, MachineryError
from ..renderlib import vadd, vdist, vdot, vmul, vnorm, vsub
from ..tlc import run_tlc
from .c08 import similarity
from .grading import cfg_text


def dist_to_polyline(p, pts) -> float:
    best = float("inf")
    for a, b in zip(pts[:-1], pts[1:]):
        ab = vsub(b, a)
        t = max(0.0, min(1.0, vdot(vsub(p, a), ab) / max(vdot(ab, ab), 1e-300)))
        best = min(best, vdist(p, vadd(a, vmul(ab, t))))
    return best


def arclen_on_polyline(p, pts) -> float:
    """arc length of the point of the polyline closest to p"""
    best, where, acc = float("inf"), 0.0, 0.0
    for a, b in zip(pts[:-1], pts[1:]):
        ab = vsub(b, a)
        seg = vnorm(ab)
        t = max(0.0, min(1.0, vdot(vsub(p, a), ab) / max(vdot(ab, ab), 1e-300)))
        d = vdist(p, vadd(a, vmul(ab, t)))
        if d < best:
            best, where = d, acc + t * seg
        acc += seg
    return where


def frac(x) -> float:
    return x[0] / x[1]


def check_polyline(ctx: Ctx, inst: dict, rng: random.Random) -> None:
    import classy_blocks as cb
    import numpy as np
    from classy_blocks.items.edges.factory import factory
    from classy_blocks.items.vertex import Vertex

    point, vector, scale = similarity(rng)
    pts = [point(p) for p in inst["points"]]
    L = inst["length"] * scale
    cum = [c * scale for c in inst["cum"]]
    samples = sorted(({"s": frac(s["s"]) * scale, "p": point([frac(c) for c in s["p"]])} for s in inst["samples"]), key=lambda x: x["s"])
    n = len(pts) - 1
    tolp = 1e-9 * max(L, 1e-9) * 10
    rep = {"points": inst["points"], "scale": scale}
    # a polyline that doubles back at an acute angle has two branches arbitrarily close to each other next to the
    # corner: closest-point queries there are classified separately
    raw = inst["points"]
    acute = any(sum((raw[i + 1][c] - raw[i][c]) * (raw[i + 2][c] - raw[i + 1][c]) for c in range(3)) < 0 for i in range(len(raw) - 2))

    def bad(sig, what):
        if acute and ("closest-param" in sig or sig.startswith("oncurve:")):
            sig += ":acute-corner"
        ctx.violation(sig, what, rep)

    def guarded(name, fn):
        try:
            return fn()
        except Exception as err:  # pylint: disable=broad-except
            bad(f"raises:{name}:{type(err).__name__}", f"{name} raised {type(err).__name__}: {err}")
            return None

    # ---- linear interpolated curve: parameter = normalised arc length
    lin = guarded("LinearInterpolatedCurve", lambda: cb.LinearInterpolatedCurve(pts))
    spl = guarded("SplineInterpolatedCurve", lambda: cb.SplineInterpolatedCurve(pts)) if n >= 3 else None
    dis = guarded("DiscreteCurve", lambda: cb.DiscreteCurve(pts))
    if lin is not None:
        for smp in samples:
            t = min(1.0, max(0.0, smp["s"] / L))
            got = guarded("linear.get_point", lambda: lin.get_point(t))
            ctx.evaluated()
            if got is not None and vdist(got, smp["p"]) > tolp:
                bad("linear:point", f"get_point({t}) is {vdist(got, smp['p']) / L:.2e} L off the exact point")
        picks = rng.sample(samples, min(5, len(samples)))
        for a in picks:
            for b in picks:
                ta, tb = min(1.0, a["s"] / L), min(1.0, b["s"] / L)
                want = abs(b["s"] - a["s"])
                got = guarded("linear.get_length", lambda: lin.get_length(ta, tb))
                ctx.evaluated(f"lin-len:{inst['points']}:{a['s'] / L:.4f}:{b['s'] / L:.4f}")
                order = "forward" if ta <= tb else "reversed"
                if got is not None and abs(got - want) > 1e-9 * L:
                    bad(f"linear:length:{order}", f"get_length({ta}, {tb}) = {got}, exact polyline length {want}")
                disc = guarded("linear.discretize", lambda: lin.discretize(ta, tb, 7))
                if disc is not None:
                    if vdist(disc[0], a["p"]) > tolp or vdist(disc[-1], b["p"]) > tolp:
                        bad(f"linear:discretize-ends:{order}", f"discretize({ta}, {tb}) does not start/end at the curve's points")
                    if any(dist_to_polyline(list(p), pts) > tolp for p in disc):
                        bad("linear:discretize-off-curve", "discretized points leave the polyline")
        # additivity over a split
        a, b, c = sorted(rng.sample(samples, 3), key=lambda x: x["s"])
        vals = guarded("linear.get_length", lambda: (lin.get_length(a["s"] / L, c["s"] / L), lin.get_length(a["s"] / L, b["s"] / L), lin.get_length(b["s"] / L, c["s"] / L)))
        if vals is not None and abs(vals[0] - vals[1] - vals[2]) > 1e-9 * L:
            bad("linear:additivity", f"length {vals[0]} != {vals[1]} + {vals[2]}")
    # ---- discrete curve: parameter = index
    if dis is not None:
        for i in range(n + 1):
            got = guarded("discrete.get_point", lambda: dis.get_point(i))
            if got is not None and vdist(got, pts[i]) > tolp:
                bad("discrete:point", f"get_point({i}) is not the {i}-th point")
        for i in range(n + 1):
            for j in range(n + 1):
                if i == j:
                    continue
                got = guarded("discrete.get_length", lambda: dis.get_length(i, j))
                ctx.evaluated()
                order = "forward" if i < j else "reversed"
                if got is not None and abs(got - abs(cum[j] - cum[i])) > 1e-9 * L:
                    bad(f"discrete:length:{order}", f"get_length({i}, {j}) = {got}, exact {abs(cum[j] - cum[i])}")
                disc = guarded("discrete.discretize", lambda: dis.discretize(i, j))
                if disc is not None and (len(disc) != abs(i - j) + 1 or vdist(disc[0], pts[i]) > tolp or vdist(disc[-1], pts[j]) > tolp):
                    bad(f"discrete:discretize-ends:{order}", f"discretize({i}, {j}) does not run from point {i} to point {j}")
    # ---- spline: through its points, end points of discretisation, additivity at defining points, monotone
    if spl is not None:
        knots = [c / L for c in cum]
        for i, t in enumerate(knots):
            got = guarded("spline.get_point", lambda: spl.get_point(min(1.0, t)))
            ctx.evaluated()
            if got is not None and vdist(got, pts[i]) > 1e-7 * L:
                bad("spline:through-points", f"spline misses its defining point {i} by {vdist(got, pts[i]) / L:.2e} L")
        ta, tb = sorted((rng.random(), rng.random()))
        for (x, y) in ((ta, tb), (tb, ta)):
            disc = guarded("spline.discretize", lambda: spl.discretize(x, y, 9))
            ends = guarded("spline.get_point", lambda: (spl.get_point(x), spl.get_point(y)))
            if disc is not None and ends is not None and (vdist(disc[0], ends[0]) > tolp or vdist(disc[-1], ends[1]) > tolp):
                bad("spline:discretize-ends", "discretize does not start/end at get_point of its bounds")
        i = rng.randrange(1, n)
        vals = guarded("spline.get_length", lambda: (spl.get_length(0, 1), spl.get_length(0, knots[i]), spl.get_length(knots[i], 1), spl.get_length(1, 0)))
        if vals is not None:
            if abs(vals[0] - vals[1] - vals[2]) > 1e-9 * L:
                bad("spline:additivity-at-knot", f"length {vals[0]} != {vals[1]} + {vals[2]} when split at a defining point")
            if abs(vals[0] - vals[3]) > 1e-9 * L:
                bad("spline:length:reversed", f"length(1,0) = {vals[3]} differs from length(0,1) = {vals[0]}")
            if vals[0] < cum[-1] * (1 - 1e-9):
                bad("spline:shorter-than-polyline", f"spline length {vals[0]} below the polyline through its points {cum[-1]}")
    # ---- closest parameter: at least as close as any densely sampled point (queries near the curve)
    for name, curve in (("linear", lin), ("spline", spl)):
        if curve is None:
            continue
        dense = guarded(f"{name}.discretize", lambda: curve.discretize(0, 1, 401))
        if dense is None:
            continue
        for smp in rng.sample(samples[1:-1], min(3, len(samples) - 2)):
            base = curve.get_point(min(1.0, smp["s"] / L))
            off = vector([rng.gauss(0, 1) for _ in range(3)])
            q = vadd(list(base), vmul(off, 0.01 * L / max(vnorm(off), 1e-12)))
            t = guarded(f"{name}.get_closest_param", lambda: curve.get_closest_param(q))
            ctx.evaluated()
            if t is None:
                continue
            d = vdist(curve.get_point(min(1.0, max(0.0, t))), q)
            dmin = min(vdist(list(p), q) for p in dense)
            if d > dmin + 1e-5 * L:
                # graded: a result within 10 % of the best sampled distance is a near miss of the greedy search
                grade = ":within-10-percent" if d <= 1.1 * dmin else ""
                bad(f"{name}:closest-param{grade}", f"closest parameter {t} is at distance {d / L:.3e} L, a sampled point is at {dmin / L:.3e} L")
    if dis is not None:
        k = rng.randrange(n + 1)
        off = vector([rng.gauss(0, 1) for _ in range(3)])
        q = vadd(pts[k], vmul(off, 0.01 * min(vdist(pts[i], pts[i + 1]) for i in range(n)) / max(vnorm(off), 1e-12)))
        t = guarded("discrete.get_closest_param", lambda: dis.get_closest_param(q))
        if t is not None and int(round(t)) != k:
            bad("discrete:closest-param", f"closest parameter {t} for a query next to point {k}")
    # ---- an edge snapped to the curve
    if lin is not None and len(samples) > 4:
        for _ in range(2):
            a, b = rng.sample(samples[1:-1], 2)
            if abs(a["s"] - b["s"]) < 0.05 * L:
                continue

            def mk():
                return factory.create(Vertex(a["p"], 0), Vertex(b["p"], 1), cb.OnCurve(lin, n_points=6))
            edge = guarded("OnCurveEdge", mk)
            if edge is None:
                continue
            ctx.evaluated(f"oncurve:{inst['points']}:{a['s'] / L:.3f}:{b['s'] / L:.3f}")
            order = "forward" if a["s"] < b["s"] else "reversed"
            length = guarded("OnCurveEdge.length", lambda: edge.length)
            if length is not None and abs(length - abs(a["s"] - b["s"])) > 1e-5 * L:
                bad(f"oncurve:length:{order}", f"edge length {length}, curve length between its vertices {abs(a['s'] - b['s'])}")
            pa = guarded("OnCurveEdge.point_array", lambda: [list(p) for p in edge.point_array])
            if pa is not None:
                lo, hi = sorted((a["s"], b["s"]))
                for p in pa:
                    s_p = arclen_on_polyline(p, pts)
                    if dist_to_polyline(p, pts) > 1e-6 * L or s_p < lo - 1e-5 * L or s_p > hi + 1e-5 * L:
                        bad(f"oncurve:points:{order}", "edge points do not lie on the curve between its two vertices")
                        break
                if len(pa) >= 2:
                    sa, sb = arclen_on_polyline(pa[0], pts), arclen_on_polyline(pa[-1], pts)
                    if (sa < sb) != (a["s"] < b["s"]):
                        bad(f"oncurve:direction:{order}", "edge points run from the second vertex to the first")
            # the same edge after its vertices were slid along the curve (optimizer, move_vertex): it is the part of the curve
            # between where the vertices are NOW
            c, d = rng.sample(samples[1:-1], 2)
            if abs(c["s"] - d["s"]) >= 0.05 * L:
                def moved():
                    edge.vertex_1.move_to(np.array(c["p"]))
                    edge.vertex_2.move_to(np.array(d["p"]))
                    return float(edge.length), [list(p) for p in edge.point_array]
                out = guarded("OnCurveEdge.after-move", moved)
                ctx.evaluated()
                if out is not None:
                    length2, pa2 = out
                    if abs(length2 - abs(c["s"] - d["s"])) > 1e-5 * L:
                        bad("oncurve:length:after-move", f"edge length {length2} after its vertices moved, curve length between them {abs(c['s'] - d['s'])}")
                    lo, hi = sorted((c["s"], d["s"]))
                    if any(dist_to_polyline(p, pts) > 1e-6 * L or not (lo - 1e-5 * L <= arclen_on_polyline(p, pts) <= hi + 1e-5 * L) for p in pa2):
                        bad("oncurve:points:after-move", "after its vertices moved the edge points do not lie between the two vertices")


def check_circle(ctx: Ctx, inst: dict, rng: random.Random) -> None:
    import classy_blocks as cb
    import numpy as np

    point, vector, scale = similarity(rng)
    inst = dict(inst, p2=[c + x / inst["den"] for c, x in zip(inst["centre"], inst["p2lin"])])
    R = inst["R"] * inst["flen"] * scale
    centre, p1 = point(inst["centre"]), point(inst["p1"])
    normal = vmul(vector(inst["axis"]), rng.uniform(0.5, 3))
    rep = {"plane": inst["plane"], "scale": scale}
    try:
        circ = cb.CircleCurve(centre, p1, normal)
        line = cb.LineCurve(p1, point(inst["p2"]))
    except Exception as err:  # pylint: disable=broad-except
        ctx.violation(f"raises:CircleCurve:{type(err).__name__}", str(err), rep)
        return
    p1pl = inst["plane"]["p1"]
    for o in rng.sample(inst["others"], min(4, len(inst["others"]))):
        pl = o["pl"]
        phi = math.atan2(p1pl[0] * pl[1] - p1pl[1] * pl[0], p1pl[0] * pl[0] + p1pl[1] * pl[1]) % (2 * math.pi)
        x = point(o["w"])
        ctx.evaluated()
        try:
            got = circ.get_point(phi)
            length = circ.get_length(0, phi)
            back = circ.get_length(phi, 0)
            disc = circ.discretize(phi, 0, 11)
            tclose = circ.get_closest_param(vadd(x, vmul(vsub(x, centre), 0.02))) if 0.3 < phi < 2 * math.pi - 0.3 else phi
        except Exception as err:  # pylint: disable=broad-except
            ctx.violation(f"raises:circle:{type(err).__name__}", str(err), rep)
            continue
        if vdist(got, x) > 1e-8 * R:
            ctx.violation("circle:point", f"CircleCurve.get_point({phi}) is {vdist(got, x) / R:.2e} R off the exact circle point", rep)
        if abs(length - R * phi) > 2e-4 * R * phi or abs(back - length) > 1e-9 * R:
            ctx.violation("circle:length", f"CircleCurve.get_length(0, {phi}) = {length} / reversed {back}, R*phi = {R * phi}", rep)
        if vdist(disc[0], x) > 1e-8 * R or vdist(disc[-1], p1) > 1e-8 * R:
            ctx.violation("circle:discretize-ends", "reversed discretisation does not start/end at the curve's points", rep)
        if abs(tclose - phi) > 1e-4:
            ctx.violation("circle:closest-param", f"closest parameter {tclose} for a query at angle {phi}", rep)
    # curves given on custom bounds that do not start at zero (an arc from -2 to 1.5 rad, a line extended to both sides,
    # an analytic curve on [-1.5, 2]): a point of the curve is closest to its own parameter
    try:
        arc = cb.CircleCurve(centre, p1, normal, (-2.0, 1.5))
        ext = cb.LineCurve(p1, point(inst["p2"]), (-1.5, 2.5))
        a0, a1 = list(p1), list(point(inst["p2"]))
        ana = cb.AnalyticCurve(lambda t: np.array([a0[i] + (a1[i] - a0[i]) * t + (0.3 * R * t * t if i == 0 else 0.0) for i in range(3)]), (-1.5, 2.0))
        for name, curve, ts in (("arc", arc, [-1.7, -0.6, -0.05, 0.9]), ("line", ext, [-1.2, -0.3, 0.4, 2.1]), ("analytic", ana, [-1.1, -0.2, 0.7])):
            for t in ts:
                ctx.evaluated()
                got = curve.get_closest_param(curve.get_point(t))
                if abs(got - t) > 1e-4:
                    ctx.violation(f"custom-bounds:closest-param:{name}:{'negative' if t < 0 else 'positive'}",
                                  f"{name} curve on bounds {curve.bounds}: the point at parameter {t} is reported closest to {got}", rep)
            # a stretch given by two parameters is that stretch - whatever the parameters are (0 is a parameter like any other
            # on these bounds, given as an int, a float or a numpy number): its ends are the points at the two parameters, its
            # length is exact (arc, line) and adds up over a split
            lo, hi = curve.bounds
            for ta, tb in ((0, ts[-1]), (ts[0], 0.0), (np.float64(0.0), hi), (lo, np.int64(0)), (ts[1], ts[-1]), (None, 0), (0, None)):
                ctx.evaluated()
                fa, fb = (lo if ta is None else float(ta)), (hi if tb is None else float(tb))
                disc = curve.discretize(ta, tb, 9)
                ends = vdist(disc[0], curve.get_point(fa)) + vdist(disc[-1], curve.get_point(fb))
                whole, tm = curve.get_length(ta, tb), 0.5 * (fa + fb) + 0.1
                parts = curve.get_length(ta, tm) + curve.get_length(tm, tb)
                exact = {"arc": R * abs(fb - fa), "line": vdist(a0, a1) * abs(fb - fa)}.get(name)
                zero = "zero" if 0 in (ta, tb) else "nonzero"
                if ends > 1e-8 * R:
                    ctx.violation(f"custom-bounds:discretize-ends:{name}:{zero}", f"{name} curve on bounds {curve.bounds}: discretize({ta}, {tb}) "
                                  f"does not run from the point at {fa} to the point at {fb}", rep)
                if abs(whole - parts) > 1e-3 * max(whole, parts) or (exact is not None and abs(whole - exact) > 2e-4 * exact):
                    ctx.violation(f"custom-bounds:length:{name}:{zero}", f"{name} curve on bounds {curve.bounds}: get_length({ta}, {tb}) = {whole}, "
                                  f"its two halves {parts}, exact {exact}", rep)
    except Exception as err:  # pylint: disable=broad-except
        ctx.violation(f"raises:custom-bounds:{type(err).__name__}", str(err), rep)
    # line
    t1, t2 = rng.random(), rng.random()
    try:
        a, b = line.get_point(t1), line.get_point(t2)
        ll = line.get_length(t1, t2)
    except Exception as err:  # pylint: disable=broad-except
        ctx.violation(f"raises:line:{type(err).__name__}", str(err), rep)
        return
    chord = vdist(p1, point(inst["p2"]))
    want_a = vadd(p1, vmul(vsub(point(inst["p2"]), p1), t1))
    if vdist(a, want_a) > 1e-9 * chord or abs(ll - abs(t2 - t1) * chord) > 1e-9 * chord:
        ctx.violation("line:point-or-length", "LineCurve point/length differ from the exact line", rep)


def run(ctx: Ctx) -> None:
    ctx.rule = ("polylines = sequences of 2..MaxSteps lattice steps of integer length (Curve.tla), sampled at rational arc lengths, "
                "each under a random similarity; circle/line curves on Arc.tla instances; non-trivial = uneven spacing (all); "
                "distinct by (step sequence, sample pair)")
    consts = {"MaxSteps": "3" if ctx.tier == "quick" else "4", "SampleDen": "12"}
    res = run_tlc("Curve", "curve.cfg", cfg_text=cfg_text("Spec", consts, ["LenAdditive", "KnotOnCurve"], constraints=["Emit"]), workers=1, timeout=900)
    ctx.add_tlc(res)
    insts = res.records
    if len(insts) < 20:
        raise MachineryError("Curve.tla emitted too few polylines")
    rng = random.Random(ctx.seed + 16)
    take = insts if len(insts) <= 300 else rng.sample(insts, 300 if ctx.tier == "quick" else 1500)
    ctx.exhaustive = len(take) == len(insts)
    for inst in take:
        check_polyline(ctx, inst, rng)
        ctx.validated()
    ctx.sample({"points": take[0]["points"], "cum": take[0]["cum"]})
    arc = run_tlc("Arc", "arc.cfg", cfg_text=cfg_text("Spec", {"Radii": "{5}", "WideRadii": "{}", "FrameIdx": "{1, 2}", "CentreIdx": "{2}"}, ["MidOK"], constraints=["Emit"]),
                  workers=1, timeout=600)
    ctx.add_tlc(arc)
    for inst in rng.sample(arc.records, min(len(arc.records), 40 if ctx.tier == "quick" else 112)):
        check_circle(ctx, inst, rng)
        ctx.validated()
