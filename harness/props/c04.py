"""C04 - cell-size distribution matches on shared edges and honours 'preserve'.

Grading.tla (invariant SharedSame and the rest) is model-checked and enumerates topology x corner numbering x
chop placement; each configuration is built on a WARPED lattice (the four parallel edges of a block have
different lengths) with size-preserving laws, written under a random set-iteration schedule, and the file is
decoded per edge with blockMesh's (multi-)grading law into cell-size sequences.  SizesJudge.tla (TLC) decides
every record: identical physical sequence from every block sharing an edge (reversed when traversed the other
way), preserved first/last size or ratio on every wire of the chop's family at the geometrically same end.
Random real shapes (cylinder, ring, frustum, semi-cylinder: arcs and splines) are judged the same way.
"""

from __future__ import annotations

import json
import math
import os
import random
from typing import Dict, List, Tuple

from .. import bmd, examples, hexref
from ..common import Ctx, MachineryError
from ..gradelib import force_schedule
from ..renderlib import vdist, vsub, vadd, vmul, vcross, vnorm, vdot
from ..tlc import run_tlc
from . import grading as g
from .grading_judge import _apply, _rand_frame

TLC_CONSTS = {
    "quick": {"Variant": '"fixed"', "Topos": g.tla_set(["face2", "edge2", "ell3", "hook3"]), "Rot1Choice": "{1}",
              "RotChoice": "{1, 4, 30, 43}", "ChopOpts": g.tla_set(["A2", "D1E2"]), "MaxChopped": "0", "Cover": "TRUE",
              "AllOrders": "FALSE", "PassBound": "4"},
    "thorough": {"Variant": '"fixed"', "Topos": g.tla_set(["face2", "edge2", "row3", "ell3", "hook3", "stair3"]),
                 "Rot1Choice": "{1, 11}", "RotChoice": "{1, 4, 7, 30, 43}", "ChopOpts": g.tla_set(["A2", "D1E2"]),
                 "MaxChopped": "0", "Cover": "TRUE", "AllOrders": "FALSE", "PassBound": "4"},
}


def progression(length: float, n: int, total: float) -> List[float]:
    if n <= 0:
        return []
    if n == 1:
        return [length]
    r = total ** (1.0 / (n - 1))
    first = length / n if abs(r - 1) < 1e-12 else length * (1 - r) / (1 - r ** n)
    return [first * r ** k for k in range(n)]


def decode_spec(length: float, n: int, spec: List[List[float]]) -> List[float]:
    """blockMesh (multi-)grading: sections (length fraction, cell fraction, expansion)"""
    if len(spec) == 1:
        return progression(length, n, spec[0][2])
    lsum = sum(s[0] for s in spec)
    csum = sum(s[1] for s in spec)
    out: List[float] = []
    used = 0
    for k, s in enumerate(spec):
        nk = int(round(s[1] / csum * n))
        if k == len(spec) - 1:
            nk = n - used
        used += nk
        out += progression(length * s[0] / lsum, nk, s[2])
    return out


def code(x: float) -> int:
    return int(round(1e6 * math.log(x)))


def arc_length(p1, pm, p2) -> float:
    a = vsub(pm, p1)
    b = vsub(p2, p1)
    ab = vcross(a, b)
    den = 2 * vdot(ab, ab)
    if den < 1e-30:
        return vdist(p1, p2)
    centre = vadd(p1, vmul(vadd(vmul(vcross(ab, a), vdot(b, b)), vmul(vcross(b, ab), vdot(a, a))), 1.0 / den))
    r1, rm, r2 = vsub(p1, centre), vsub(pm, centre), vsub(p2, centre)
    R = vnorm(r1)
    n = vcross(r1, r2)
    ang = math.atan2(vnorm(n), vdot(r1, r2))
    # is pm on the minor arc?
    if vdot(vcross(r1, rm), vcross(r1, r2)) < 0 or vdot(vcross(rm, r2), vcross(r1, r2)) < 0:
        ang = 2 * math.pi - ang
    return R * ang


def edge_lengths(parsed: dict) -> Dict[frozenset, float]:
    """length of every curved edge listed in the file (arcs exactly, point lists as polylines)"""
    V = [list(v["p"]) for v in parsed["vertices"]]
    out = {}
    for e in parsed["edges"]:
        a, b = V[e["v1"]], V[e["v2"]]
        if e["kind"] == "arc":
            out[frozenset((e["v1"], e["v2"]))] = arc_length(a, list(e["data"]), b)
        elif e["kind"] in ("spline", "polyLine"):
            pts = [a] + [list(p) for p in e["data"]] + [b]
            out[frozenset((e["v1"], e["v2"]))] = sum(vdist(pts[i], pts[i + 1]) for i in range(len(pts) - 1))
    return out


def record_from_file(rid: int, parsed: dict, req, exact_lengths: bool = True) -> dict:
    V = [list(v["p"]) for v in parsed["vertices"]]
    curved = edge_lengths(parsed)
    seqs, simple = [], []
    for blk in parsed["blocks"]:
        per_axis = []
        for a in range(3):
            wires = []
            for i, (c1, c2) in enumerate(hexref.AXIS_WIRES[a]):
                v1, v2 = blk["v"][c1], blk["v"][c2]
                length = curved.get(frozenset((v1, v2)), vdist(V[v1], V[v2]))
                spec = blk["g"][a] if blk["kind"] == "simple" else blk["g"][4 * a + i]
                sizes = decode_spec(length, blk["n"][a], spec)
                wires.append([code(s) for s in sizes])
            per_axis.append(wires)
        seqs.append(per_axis)
        simple.append(blk["kind"] == "simple")
    # coincident wires of different blocks, grouped by unordered vertex pair
    groups: Dict[frozenset, list] = {}
    for b, blk in enumerate(parsed["blocks"]):
        for a in range(3):
            for i, (c1, c2) in enumerate(hexref.AXIS_WIRES[a]):
                groups.setdefault(frozenset((blk["v"][c1], blk["v"][c2])), []).append((b + 1, a, i + 1))
    co = []
    for ws in groups.values():
        for x in range(len(ws)):
            for y in range(x + 1, len(ws)):
                if ws[x][0] != ws[y][0]:
                    co.append(list(ws[x]) + list(ws[y]))
    return {"id": rid, "nb": len(parsed["blocks"]), "blocks": [b["v"] for b in parsed["blocks"]], "seq": seqs, "req": req,
            "simple": simple, "co": co}


def warped(vid: int, sp, frame, scale: float, odd=None) -> List[float]:
    """odd = None: every lattice line is stretched differently (the four parallel edges of a block all differ);
    odd = (vertex id, displacement): a product grid with ONE displaced vertex, so that in the blocks around it exactly one
    of the four parallel edges differs - in any of the four positions of the axis' wire order, the last included"""
    x, y, z = vid % 6, (vid // 6) % 6, vid // 36
    if odd is None:
        p = [sp[0][x] * (1 + 0.10 * y + 0.07 * z), sp[1][y] * (1 + 0.08 * x + 0.05 * z), sp[2][z] * (1 + 0.06 * x + 0.09 * y)]
    else:
        p = [sp[0][x], sp[1][y], sp[2][z]]
        if vid == odd[0]:
            p = [p[i] + odd[1][i] for i in range(3)]
    return _apply(frame[0], frame[1], p, scale)


def law_for(kind: str, size: float):
    """kwargs list for the real API and the request <<mode, code>> SizesJudge checks"""
    if kind == "S":
        return [dict(start_size=size, c2c_expansion=1.2, preserve="start_size")], [1, code(size)]
    if kind == "E":
        return [dict(end_size=size, c2c_expansion=0.85, preserve="end_size")], [2, code(size)]
    if kind == "C":
        return [dict(count=5, c2c_expansion=1.15)], [3, code(1.15)]
    if kind == "D":
        return [dict(count=5, c2c_expansion=0.85)], [3, code(0.85)]
    if kind == "T":
        return [dict(count=4, total_expansion=3.0)], [3, int(round(1e6 * math.log(3.0) / 3))]
    if kind == "M":
        return [dict(length_ratio=0.4, start_size=size, c2c_expansion=1.1, preserve="start_size"),
                dict(length_ratio=0.6, count=3, c2c_expansion=1.3)], [0, 0]
    raise ValueError(kind)


SANDWICH = {"Variant": '"fixed"', "Topos": g.tla_set(["row3", "ell3"]), "Rot1Choice": "{1}", "RotChoice": "{1, 4, 30, 43}",
            "ChopOpts": g.tla_set(["A2"]), "MaxChopped": "1", "Cover": "TRUE", "AllOrders": "FALSE", "PassBound": "4"}


def lattice_configs(ctx: Ctx, rng: random.Random, limit: int) -> None:
    import classy_blocks as cb

    cfgs = g.model_check(ctx, TLC_CONSTS[ctx.tier], ["TypeOK", "OutcomeOK", "WrittenAgree", "Complete", "SharedSame"],
                         timeout=2400, emit=True).records
    cfgs = [c for c in cfgs if c["expected"] == "Written"]
    rng.shuffle(cfgs)
    cfgs.sort(key=lambda c: 0 if c["nfam"] < 3 * c["nb"] else 1)
    cfgs = cfgs[:limit]
    # sandwiches: a family with TWO user chops of the same count that do not meet on any edge (an unchopped block between
    # them takes a different law on different edges): every shared edge still has one physical sequence of sizes
    extra = g.model_check(ctx, SANDWICH, ["TypeOK", "OutcomeOK", "WrittenAgree", "Complete"], timeout=2400, emit=True).records
    extra = [c for c in extra if c["expected"] == "Written" and c["multilaw"] and not c["clash"]]
    rng.shuffle(extra)
    for c in extra[: limit // 4]:
        c["sandwich"] = True
    cfgs = cfgs + extra[: limit // 4]
    recs, meta = [], {}
    recs_moved: List[dict] = []
    for cfg in cfgs:
        sp = []
        for _ in range(3):
            acc, row = 0.0, [0.0]
            for _k in range(4):
                acc += rng.uniform(0.8, 1.7)
                row.append(acc)
            sp.append(row)
        frame = _rand_frame(rng)
        scale = 10 ** rng.uniform(-1, 1)
        mesh = cb.Mesh()
        req = []
        kinds = set()
        odd = None
        if rng.random() < 0.5:
            blk = rng.choice(cfg["verts"])
            odd = (rng.choice(blk), [rng.choice([-1, 1]) * rng.uniform(0.15, 0.3) for _ in range(3)])
        for b in range(cfg["nb"]):
            pts = [warped(v, sp, frame, scale, odd) for v in cfg["verts"][b]]
            op = cb.Loft(cb.Face(pts[:4]), cb.Face(pts[4:]))
            breq = []
            for a in range(3):
                secs = cfg["chops"][b][a]
                if not secs:
                    breq.append([0, 0])
                    continue
                kind = "M" if len(secs) > 1 else rng.choice(["S", "E", "C", "T", "S", "E"])
                if cfg.get("sandwich"):
                    kind = rng.choice(["C", "D"])        # equal counts, different expansions
                kinds.add(kind)
                kws, rq = law_for(kind, 0.07 * scale * rng.uniform(0.7, 1.3))
                if cfg.get("sandwich"):
                    rq = [0, 0]                           # which law an in-between wire takes is not promised; equality on shared edges is
                for kw in kws:
                    op.chop(a, **kw)
                breq.append(rq)
            req.append(breq)
            # curved edges: an arc on one or two of the block's twelve edges (its length, not its chord, is what is graded)
            if not cfg.get("sandwich") and rng.random() < 0.5:
                for _e in range(rng.choice([1, 2])):
                    slot = rng.randrange(12)
                    c1, c2 = (slot, (slot + 1) % 4) if slot < 4 else ((slot, 4 + (slot + 1) % 4) if slot < 8 else (slot - 8, slot - 4))
                    pa, pb = pts[c1], pts[c2]
                    d = vsub(pb, pa)
                    n = vcross(d, [0.3, -0.5, 0.8])
                    mid = vadd(vmul(vadd(pa, pb), 0.5), vmul(n, rng.uniform(0.15, 0.35) * vnorm(d) / max(vnorm(n), 1e-12)))
                    if slot < 4:
                        op.bottom_face.add_edge(slot, cb.Arc(mid))
                    elif slot < 8:
                        op.top_face.add_edge(slot - 4, cb.Arc(mid))
                    else:
                        op.add_side_edge(slot - 8, cb.Arc(mid))
                    kinds.add("arc")
            mesh.add(op)
        try:
            mesh.assemble()
            force_schedule(mesh, random.Random(rng.random()))
            path = os.path.join(ctx.tmp, "c04.bmd")
            mesh.write(path)
            with open(path, encoding="utf-8") as f:
                parsed = bmd.parse_blockmeshdict(f.read())
        except Exception as err:  # pylint: disable=broad-except
            ctx.violation(f"sizes:write-fails:{type(err).__name__}", f"well-posed configuration could not be written: {err}",
                          {"cfg": g.summarize(cfg)})
            continue
        ctx.evaluated(g.cfg_key(cfg) + str(sorted(kinds)))
        rec = record_from_file(len(recs) + 1, parsed, req)
        if rec["blocks"] != [[parsed["blocks"][i]["v"][k] for k in range(8)] for i in range(cfg["nb"])]:
            raise MachineryError("block order")
        flipped = any(True for _ in [0])  # refined below by TLC; signature uses law kinds only
        meta[rec["id"]] = {"kinds": "".join(sorted(kinds)), "cfg": g.summarize(cfg), "req": req}
        recs.append(rec)
        ctx.sample({"verts": cfg["verts"], "laws": meta[rec["id"]]["kinds"], "req": req})
        # the same mesh written once more after one of its vertices was moved (no backport): sizes and ratios are those of
        # the geometry as it is now, on every edge and from either block - nothing of the first write is left
        if "arc" not in kinds and not cfg.get("sandwich"):
            try:
                # (a vertex that two or more blocks share, where there is one: the edges at it are graded from several sides)
                users: Dict[int, int] = {}
                for blk in mesh.blocks:
                    for vv in blk.vertices:
                        users[vv.index] = users.get(vv.index, 0) + 1
                shared_vs = [vv for vv in mesh.vertices if users.get(vv.index, 0) > 1]
                v = rng.choice(shared_vs or list(mesh.vertices))
                d = [rng.choice([-1, 1]) * rng.uniform(0.1, 0.2) * scale for _ in range(3)]
                v.move_to([v.position[i] + d[i] for i in range(3)])
                force_schedule(mesh, random.Random(rng.random()))
                mesh.write(path)
                with open(path, encoding="utf-8") as f:
                    parsed2 = bmd.parse_blockmeshdict(f.read())
            except Exception as err:  # pylint: disable=broad-except
                ctx.violation(f"sizes:write-fails:after-move:{type(err).__name__}", f"a well-posed configuration could not be written again "
                              f"after a vertex was moved: {err}", {"cfg": g.summarize(cfg)})
                continue
            ctx.evaluated()
            rec2 = record_from_file(len(recs) + len(recs_moved) + 100001, parsed2, req)
            meta[rec2["id"]] = {"kinds": "".join(sorted(kinds)), "cfg": g.summarize(cfg), "req": req}
            recs_moved.append(rec2)
    judge(ctx, recs, meta, "lattice")
    judge(ctx, recs_moved, meta, "lattice-after-move")


def judge(ctx: Ctx, recs: List[dict], meta: Dict[int, dict], family: str) -> None:
    if not recs:
        return
    path = os.path.join(ctx.tmp, f"sizes_{family}.json")
    with open(path, "w", encoding="utf-8") as f:
        json.dump({"recs": recs}, f)
    res = run_tlc("SizesJudge", "SizesJudge.cfg", env={"VERIF_TRACE_FILE": path}, workers=1, timeout=1200)
    ctx.add_tlc(res)
    verdicts = {v["id"]: v["fails"] for v in res.records}
    if len(verdicts) != len(recs):
        raise MachineryError(f"SizesJudge judged {len(verdicts)} of {len(recs)} records")
    for r in recs:
        ctx.validated()
        for c in verdicts[r["id"]]:
            m = meta[r["id"]]
            ctx.violation(f"sizes:{c}:{family}:{m['kinds']}", f"{family} record: SizesJudge clause {c} rejected the decoded cell sizes",
                          {"meta": m, "record": r})


def shape_records(ctx: Ctx, rng: random.Random, n: int) -> None:
    import classy_blocks as cb

    recs, meta = [], {}
    for _ in range(n):
        kind = rng.choice(["cylinder", "ring", "frustum", "semicylinder", "cyl_ring"])
        rot, org = _rand_frame(rng)
        s = 10 ** rng.uniform(-1, 1)

        def P(p):
            return _apply(rot, org, p, s)

        if kind == "cylinder":
            shapes = [cb.Cylinder(P([0, 0, 0]), P([0, 0, 2]), P([1, 0, 0]))]
        elif kind == "semicylinder":
            shapes = [cb.SemiCylinder(P([0, 0, 0]), P([0, 0, 2]), P([1, 0, 0]))]
        elif kind == "frustum":
            shapes = [cb.Frustum(P([0, 0, 0]), P([0, 0, 2]), P([1, 0, 0]), 0.6 * s)]
        elif kind == "ring":
            shapes = [cb.ExtrudedRing(P([0, 0, 0]), P([0, 0, 1.5]), P([2, 0, 0]), 1.0 * s, n_segments=rng.choice([4, 6, 8]))]
        else:
            cyl = cb.Cylinder(P([0, 0, 0]), P([0, 0, 2]), P([1, 0, 0]))
            shapes = [cyl, cb.ExtrudedRing.expand(cyl, 0.6 * s)]
        main = shapes[0]
        ops = [op for sh in shapes for op in sh.operations]
        req = [[[0, 0] for _ in range(3)] for _ in ops]
        kinds = []
        # axial direction: straight edges -> size-preserving laws
        k_ax = rng.choice(["S", "E", "C"])
        kws, rq = law_for(k_ax, 0.15 * s)
        shell0 = main.shell[0]
        for kw in kws:
            shell0.chop(2, **kw)
        req[ops.index(shell0)][2] = rq
        kinds.append("ax" + k_ax)
        # radial direction of the shell (straight edges)
        k_rad = rng.choice(["S", "E", "C"])
        kws, rq = law_for(k_rad, 0.06 * s)
        for kw in kws:
            shell0.chop(0, **kw)
        req[ops.index(shell0)][0] = rq
        kinds.append("rad" + k_rad)
        if len(shapes) > 1:
            shapes[1].shell[0].chop(0, count=3, c2c_expansion=1.1)
        # tangential: plain counts (edges are arcs/splines)
        for sh in shapes[:1]:
            sh.chop_tangential(count=rng.randint(3, 6))
        mesh = cb.Mesh()
        for sh in shapes:
            mesh.add(sh)
        try:
            mesh.assemble()
            force_schedule(mesh, random.Random(rng.random()))
            path = os.path.join(ctx.tmp, "c04s.bmd")
            mesh.write(path)
            with open(path, encoding="utf-8") as f:
                parsed = bmd.parse_blockmeshdict(f.read())
        except Exception as err:  # pylint: disable=broad-except
            ctx.violation(f"sizes:write-fails:shape:{type(err).__name__}", f"{kind} with documented chops could not be written: {err}", {"kind": kind})
            continue
        ctx.evaluated(f"{kind}:{kinds}")
        rec = record_from_file(len(recs) + 1, parsed, req)
        meta[rec["id"]] = {"kinds": "+".join(kinds), "shape": kind, "req": req}
        recs.append(rec)
    judge(ctx, recs, meta, "shape")


def run(ctx: Ctx) -> None:
    ctx.rule = ("lattice records = Init configurations of Grading.tla with one chop per family, built on a warped lattice with "
                "size/ratio preserving laws; shape records = random round shapes; non-trivial = at least one shared edge and a "
                "size-preserving law; distinct by (vertex ids, chops, law kinds)")
    rng = random.Random(ctx.seed + 4)
    lattice_configs(ctx, rng, 400 if ctx.tier == "quick" else 4000)
    shape_records(ctx, rng, 40 if ctx.tier == "quick" else 300)
    examples.judge_examples(ctx, "C04")     # SizesJudge SharedSeq on the example scripts' dictionaries
