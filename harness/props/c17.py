"""C17 - clamps stay on their manifold and links keep their relation.

Links.tla enumerates exact lattice instances in integer orthogonal frames about shifted origins: positions with
their feet on a line / plane, radius and height about an axis, leaders moved by quarter turns (plus radial and
axial displacement), translations and mirror images, with the exact expected follower positions; TLC checks the
quarter-turn and mirror identities.  Every instance is mapped by a random similarity (non-unit directions,
non-zero origins) and the real clamps / links are compared with the exact values.
"""

from __future__ import annotations

import math
import random

from ..common import Ctx, MachineryError
from ..renderlib import vadd, vcross, vdist, vdot, vmul, vnorm, vsub
from ..tlc import run_tlc
from .c08 import similarity
from .grading import cfg_text


def run(ctx: Ctx) -> None:
    ctx.rule = ("instances = (frame, origin, leader, follower, quarter turns, radial factor, axial shift, translation) of "
                "Links.tla, sampled and mapped by random similarities; non-trivial = all (origins and directions are never "
                "axis-aligned after the similarity); distinct by instance")
    consts = {"FrameIdx": "{2}" if ctx.tier == "quick" else "{1, 2, 3}", "OriginIdx": "{2}" if ctx.tier == "quick" else "{2, 3}", "CoordIdx": "1"}
    res = run_tlc("Links", "links.cfg", cfg_text=cfg_text("Spec", consts, ["QuarterOK", "MirrorOK", "History"], constraints=["Emit"]), workers=1, timeout=1200)
    ctx.add_tlc(res)
    insts = res.records
    if len(insts) < 100:
        raise MachineryError("Links.tla emitted too few instances")
    rng = random.Random(ctx.seed + 17)
    take = rng.sample(insts, 250 if ctx.tier == "quick" else 3000)
    ctx.exhaustive = False
    for inst in take:
        evaluate(ctx, inst, rng)
        ctx.validated()
    ctx.sample({k: take[0][k] for k in ("origin", "l0", "f0", "lrot", "frot", "k", "fsym")})


def evaluate(ctx: Ctx, inst: dict, rng: random.Random) -> None:
    import classy_blocks as cb
    import numpy as np

    point, vector, scale = similarity(rng)
    P = {k: point(inst[k]) for k in ("origin", "l0", "f0", "lrot", "frot", "ltrans", "ftrans", "fsym", "foot_line", "foot_plane",
                                          "lrot2", "frot2", "ltrans2", "ftrans2", "fsym2")}
    u, v, w = (vector(inst["frame"][k]) for k in ("u", "v", "w"))
    flen = inst["frame"]["len"]
    size = scale * flen
    tol = 1e-5 * size
    rep = {"instance": {k: inst[k] for k in ("origin", "l0", "f0", "k", "k2")}, "scale": scale}

    def bad(sig, what):
        ctx.violation(sig, what, rep)

    # every other instance hands its points and vectors over as float arrays of the caller's, which the caller goes on using
    # for something else once the link / clamp / curve is made (a reused work buffer, the position of a vertex that moves):
    # what was declared is what held when the object was created
    handed: list = []
    as_arrays = rng.random() < 0.5

    def own(value):
        if not as_arrays:
            return value
        arr = np.array(value, dtype=float)
        handed.append(arr)
        return arr

    def guarded(name, fn):
        try:
            made = fn()
            for arr in handed:
                arr += 13.7 * size
            handed.clear()
            return made
        except Exception as err:  # pylint: disable=broad-except
            bad(f"raises:{name}:{type(err).__name__}", f"{name} raised {type(err).__name__}: {err}")
            return None

    # ------------------------------------------------------------------ links
    def link_case(name, make, moves):
        """moves: (leader position, exact follower position) one after the other on the same link, the way the
        optimizer uses it; each update is repeated once (nothing may change) and the last move returns the leader"""
        link = guarded(name, make)
        ctx.evaluated(f"{name}:{inst['l0']}:{inst['f0']}:{inst['k']}:{inst['k2']}")
        if link is None:
            return
        for n, (new_leader, want_follower) in enumerate(moves):
            tag = "" if n == 0 else (":second-move" if n == 1 else ":moved-back")
            assigned = np.array(new_leader, dtype=float)
            for again in ("", ":repeated"):
                link.leader = assigned.copy()

                def upd():
                    link.update()
                    return True
                if guarded(f"{name}.update", upd) is None:
                    return
                if vdist(link.follower, want_follower) > tol:
                    bad(f"{name}:follower{tag}{again}", f"follower is {vdist(link.follower, want_follower) / size:.3g} sizes away from the exact position")
                if vdist(link.leader, assigned) > 1e-12 * max(1.0, vnorm(assigned)):
                    bad(f"{name}:leader-altered{tag}{again}", f"update() moved the leader by {vdist(link.leader, assigned) / size:.3g} sizes")

    link_case("TranslationLink", lambda: cb.TranslationLink(own(P["l0"]), own(P["f0"])),
              [(P["ltrans"], P["ftrans"]), (P["ltrans2"], P["ftrans2"]), (P["l0"], P["f0"])])
    axis = vmul(w, rng.uniform(0.4, 3.0))
    link_case("RotationLink", lambda: cb.RotationLink(own(P["l0"]), own(P["f0"]), own(axis), own(P["origin"])),
              [(P["lrot"], P["frot"]), (P["lrot2"], P["frot2"]), (P["l0"], P["f0"])])
    normal = vmul(u, rng.uniform(0.4, 3.0))
    link_case("SymmetryLink", lambda: cb.SymmetryLink(own(P["l0"]), own(P["f0"]), own(normal), own(P["origin"])),
              [(P["lrot"], P["fsym"]), (P["lrot2"], P["fsym2"])])

    # ------------------------------------------------------------------ clamps
    uu = vmul(u, 1.0 / vnorm(u))
    ww = vmul(w, 1.0 / vnorm(w))

    def line_dist(p):
        return vnorm(vcross(vsub(p, P["origin"]), uu))

    p1, p2 = vadd(P["origin"], vmul(u, -3 * scale)), vadd(P["origin"], vmul(u, 4 * scale))
    clamp = guarded("LineClamp", lambda: cb.LineClamp(own(P["l0"]), own(p1), own(p2)))
    ctx.evaluated(f"LineClamp:{inst['l0']}")
    if clamp is not None:
        if vdist(clamp.position, P["foot_line"]) > 100 * tol:
            bad("LineClamp:initial", f"initial position {vdist(clamp.position, P['foot_line']) / size:.3g} sizes from the closest point of the line")
        length = vdist(p1, p2)
        for _ in range(3):
            t = rng.uniform(0, length)
            clamp.update_params([t])
            if line_dist(clamp.position) > tol or abs(vdist(clamp.position, p1) - t) > tol:
                bad("LineClamp:off-line", f"position for parameter {t} leaves the line or is not at distance t from its first point")
    clamp = guarded("PlaneClamp", lambda: cb.PlaneClamp(own(P["l0"]), own(P["origin"]), own(vmul(w, rng.uniform(0.4, 3.0)))))
    ctx.evaluated(f"PlaneClamp:{inst['l0']}")
    if clamp is not None:
        if vdist(clamp.position, P["foot_plane"]) > 100 * tol:
            bad("PlaneClamp:initial", f"initial position {vdist(clamp.position, P['foot_plane']) / size:.3g} sizes from the closest point of the plane")
        for _ in range(3):
            clamp.update_params([rng.uniform(-5, 5) * size, rng.uniform(-5, 5) * size])
            if abs(vdot(vsub(clamp.position, P["origin"]), ww)) > tol:
                bad("PlaneClamp:off-plane", "position leaves the plane")
    clamp = guarded("RadialClamp", lambda: cb.RadialClamp(own(P["l0"]), own(P["origin"]), own(vmul(w, rng.uniform(0.4, 3.0)))))
    ctx.evaluated(f"RadialClamp:{inst['l0']}")
    if clamp is not None:
        r0 = math.sqrt(inst["radius2"]) * scale
        h0 = inst["height"] / flen * scale
        if vdist(clamp.position, P["l0"]) > tol:
            bad("RadialClamp:initial", "initial position is not the position it was created at")
        for _ in range(3):
            clamp.update_params([rng.uniform(-6, 6) * r0])
            rel = vsub(clamp.position, P["origin"])
            h = vdot(rel, ww)
            r = vnorm(vsub(rel, vmul(ww, h)))
            if abs(r - r0) > tol or abs(h - h0) > tol:
                bad("RadialClamp:off-circle", f"radius {r} / height {h} instead of {r0} / {h0}")
    # curve clamp on a circle through l0 about the axis; the position is given slightly off the curve
    clamp_pos = vadd(P["l0"], vmul(ww, 0.03 * size))
    circ = guarded("CircleCurve", lambda: cb.CircleCurve(own(P["origin"] if inst["height"] == 0 else vadd(P["origin"], vmul(ww, inst["height"] / flen * scale))),
                                                        own(P["l0"]), own(vmul(w, 2.0)), (-1.0, 1.0)))
    if circ is not None:
        clamp = guarded("CurveClamp", lambda: cb.CurveClamp(own(clamp_pos), circ))
        ctx.evaluated(f"CurveClamp:{inst['l0']}")
        if clamp is not None:
            if vdist(clamp.position, P["l0"]) > 1e-4 * size:
                bad("CurveClamp:initial", f"initial position {vdist(clamp.position, P['l0']) / size:.3g} sizes from the closest point of the curve")
            t = rng.uniform(-0.9, 0.9)
            clamp.update_params([t])
            if vdist(clamp.position, circ.get_point(t)) > tol:
                bad("CurveClamp:off-curve", "position is not the curve's point for the parameter")
        # a rough starting estimate is only where the search begins: the clamp still reports where it was created
        guess = rng.choice([-0.4, 0.3, 0.6])
        clamp = guarded("CurveClamp", lambda: cb.CurveClamp(own(clamp_pos), circ, guess))
        ctx.evaluated()
        if clamp is not None and vdist(clamp.position, P["l0"]) > 1e-3 * size:
            bad("CurveClamp:initial:with-estimate", f"created with a starting estimate, the clamp is {vdist(clamp.position, P['l0']) / size:.3g} sizes "
                "from the closest point of the curve")
    clamp = guarded("FreeClamp", lambda: cb.FreeClamp(own(P["f0"])))
    if clamp is not None and vdist(clamp.position, P["f0"]) > 1e-9 * size:
        bad("FreeClamp:initial", "a free clamp does not report the position it was created at")

    def surf(params):
        return np.array(vadd(vadd(vadd(P["origin"], vmul(u, params[0])), vmul(v, params[1])), vmul(w, 0.2 * params[0] * params[1] / scale)))
    a0 = inst["a"]
    spos = surf([a0 * scale * 1.0, 0.5 * scale])
    clamp = guarded("ParametricSurfaceClamp", lambda: cb.ParametricSurfaceClamp(own(spos), surf, [[-4 * scale, 4 * scale], [-4 * scale, 4 * scale]]))
    ctx.evaluated()
    if clamp is not None:
        # two-parameter scipy minimisation from [0, 0] with tol 1e-7: accurate to about 1e-3 of the size
        if vdist(clamp.position, spos) > 1e-2 * size:
            bad("ParametricSurfaceClamp:initial", f"initial position {vdist(clamp.position, spos) / size:.3g} sizes from the surface point it was created at")
        prm = [rng.uniform(-3, 3) * scale, rng.uniform(-3, 3) * scale]
        clamp.update_params(prm)
        if vdist(clamp.position, surf(prm)) > 1e-9 * size:
            bad("ParametricSurfaceClamp:off-surface", "position is not the surface point of its parameters")
    est = [(a0 + rng.choice([-0.4, 0.5])) * scale, (0.5 + rng.choice([-0.3, 0.4])) * scale]
    clamp = guarded("ParametricSurfaceClamp", lambda: cb.ParametricSurfaceClamp(own(spos), surf, [[-4 * scale, 4 * scale], [-4 * scale, 4 * scale]], est))
    ctx.evaluated()
    if clamp is not None and vdist(clamp.position, spos) > 1e-2 * size:
        bad("ParametricSurfaceClamp:initial:with-estimate", f"created with a starting estimate, the clamp is {vdist(clamp.position, spos) / size:.3g} sizes "
            "from the surface point it was created at")
