"""C14 - the block quality measure depends only on the cell's shape.

Quality.tla provides the catalogue of lattice cells and the orientation-preserving renumberings (computed from
Hex.tla's symmetry group); the harness evaluates HexCell/QuadCell quality for every renumbering, under random
rigid motions and uniform scalings, with and without a neighbour, and for stretched cubes; the recorded values
(integer codes) are judged by TLC (Quality.tla, JSpec): equal within tolerance inside every orbit, monotone and
direction-independent under stretching.
"""

from __future__ import annotations

import json
import math
import os
import random
from typing import List

from ..common import Ctx, MachineryError
from ..tlc import run_tlc
from .c08 import similarity


def code(q: float) -> int:
    return int(round(1e7 * math.log1p(max(q, 0.0))))


def hex_quality(points, neighbour=None, which: int = 0) -> float:
    import numpy as np
    from classy_blocks.optimize.grid import HexGrid

    pts = [list(p) for p in points]
    addressing = [list(range(8))]
    if neighbour is not None:
        # neighbour shares the vertices it has in common
        idx = []
        for p in neighbour:
            found = None
            for i, q in enumerate(pts):
                if max(abs(p[k] - q[k]) for k in range(3)) < 1e-9 * (1 + max(abs(c) for c in q)):
                    found = i
            if found is None:
                pts.append(list(p))
                found = len(pts) - 1
            idx.append(found)
        addressing.append(idx)
    grid = HexGrid(np.array(pts, dtype=float), addressing)
    if isinstance(which, (list, tuple)):
        # the value reported for the point at this position (the cells around it, averaged)
        at = min(range(len(pts)), key=lambda i: max(abs(pts[i][k] - which[k]) for k in range(3)))
        return float(grid.junctions[at].quality)
    return float(grid.cells[which].quality)


def quad_quality(points) -> float:
    import numpy as np
    from classy_blocks.optimize.grid import QuadGrid

    grid = QuadGrid(np.array([list(p) for p in points], dtype=float), [[0, 1, 2, 3]])
    return float(grid.cells[0].quality)


def run(ctx: Ctx) -> None:
    ctx.rule = ("cells = catalogue of Quality.tla (cube, boxes, sheared, tapered, skewed hexahedra; 4 quadrilaterals) x 24 (4) "
                "rotational renumberings x random rigid motions x scalings 0.1..100, with/without neighbour; stretched cubes; "
                "non-trivial = any cell other than the cube/square; distinct by (cell, renumbering, transformation family)")
    res = run_tlc("Quality", "Quality_gen.cfg", workers=1, timeout=300)
    ctx.add_tlc(res)
    cat = res.records[0]
    rng = random.Random(ctx.seed + 14)
    n_motion = 4 if ctx.tier == "quick" else 25
    recs: List[dict] = []
    meta = {}

    def add(kind, what, **kw):
        rid = len(recs) + 1
        recs.append(dict(id=rid, kind=kind, **kw))
        meta[rid] = what

    def q_safe(fn, what):
        try:
            return fn()
        except Exception as err:  # pylint: disable=broad-except
            ctx.violation(f"quality-raises:{what}:{type(err).__name__}", f"quality of {what} raised {err}", {"what": what})
            return None

    # renumbering orbits, rigid motions, scalings
    for name, cell in cat["hex"].items():
        base = [cell[k] for k in range(8)]
        point, vector, scale = similarity(rng)
        placed = [point(p) for p in base]
        vals = []
        for perm in cat["hexperms"]:
            ren = [placed[perm[k]] for k in range(8)]
            v = q_safe(lambda: hex_quality(ren), f"hex:{name}")
            ctx.evaluated(f"hex:{name}:{perm}")
            if v is not None:
                vals.append(code(v))
        add("equal", f"renumbering:hex:{name}", codes=vals, tol=5)
        # rigid motions at unit scale
        vals = []
        for _ in range(n_motion):
            point, vector, scale = similarity(rng)
            moved = [[(c - point([0, 0, 0])[i]) / scale for i, c in enumerate(point(p))] for p in base]      # rotation only
            shift = [rng.uniform(-50, 50) for _ in range(3)]
            moved = [[m[i] + shift[i] for i in range(3)] for m in moved]
            v = q_safe(lambda: hex_quality(moved), f"hex:{name}")
            ctx.evaluated()
            if v is not None:
                vals.append(code(v))
        add("equal", f"rigid-motion:hex:{name}", codes=vals, tol=5)
        # uniform scalings: the small-number guard (1e-6 added to norms, then arccos) makes a perfect cube of size 2
        # score 0.086 and of size 0.2 score 0.88: invariance only holds up to that effect.  Two families: a loose one
        # (sizes >= 1, tolerance 0.1 in ln(1+q)) that still catches scale-dependent terms, and the strict statement.
        vals = []
        for s in [1.0, 7.0, 100.0]:
            scaled = [[c * s for c in p] for p in base]
            v = q_safe(lambda: hex_quality(scaled), f"hex:{name}")
            ctx.evaluated()
            if v is not None:
                vals.append(code(v))
        add("equal", f"scaling:hex:{name}", codes=vals, tol=1000000)
        vals = []
        for s in [0.1, 0.5, 1.0, 7.0, 100.0]:
            scaled = [[c * s for c in p] for p in base]
            v = q_safe(lambda: hex_quality(scaled), f"hex:{name}")
            ctx.evaluated()
            if v is not None:
                vals.append(code(v))
        add("equal", "scaling-strict:hex", codes=vals, tol=3000)
    # with a neighbour: renumbering either cell must not change the first cell's quality
    for name, nb in cat["neighbours"].items():
        base = [cat["hex"][name.split("_")[0]][k] for k in range(8)]
        nbr = [nb[k] for k in range(8)]
        vals, vals2, vals3 = [], [], []
        shared_pt = sorted(p for p in base if p in nbr)[0]
        # all 24 x 24 numberings of the pair (which sides of the two cells meet decides how the pair is found)
        for perm in cat["hexperms"]:
            for perm2 in cat["hexperms"]:
                a = [base[perm[k]] for k in range(8)]
                b = [nbr[perm2[k]] for k in range(8)]
                v = q_safe(lambda: hex_quality(a, b), f"hex+neighbour:{name}")
                # the neighbour is a cell as well: its value must not depend on how either of the two is numbered
                v2 = q_safe(lambda: hex_quality(a, b, which=1), f"hex+neighbour:{name}")
                ctx.evaluated(f"nb:{name}:{perm}:{perm2}")
                if v is not None:
                    vals.append(code(v))
                if v2 is not None:
                    vals2.append(code(v2))
                # ... and so is the value of a point the two share (the mean of the cells around it), read through the junction
                v3 = q_safe(lambda: hex_quality(a, b, which=shared_pt), f"hex+neighbour:{name}")
                if v3 is not None:
                    vals3.append(code(v3))
                    if v is not None and v2 is not None and abs(v3 - 0.5 * (v + v2)) > 1e-9 * max(1.0, abs(v3)):
                        ctx.violation(f"quality:junction-not-the-mean:{name}", f"the value of a point shared by two cells is {v3}, the mean of the "
                                      f"two cells' values is {0.5 * (v + v2)}", {"name": name, "perm": perm, "perm2": perm2})
        add("equal", f"renumbering:junction-of-pair:{name}", codes=vals3, tol=5)
        add("equal", f"renumbering:hex+neighbour:{name}", codes=vals, tol=5)
        add("equal", f"renumbering:neighbour-of-hex:{name}", codes=vals2, tol=5)
    # the SAME grid object after its points were moved (optimizer, smoother): a rigid motion applied point by point through
    # GridBase.update() leaves every value as it was, and equal to that of a grid built anew at the moved points
    import numpy as np
    from classy_blocks.optimize.grid import HexGrid, QuadGrid
    from .c07 import rot as rot_own

    def moved_grid(kind, pts, addressing, what):
        a, ax, o, d = rng.uniform(0.3, 1.2), [rng.uniform(-1, 1) for _ in range(3)], [rng.uniform(-1, 1) for _ in range(3)], [rng.uniform(-3, 3) for _ in range(3)]
        target = [[c + d[i] for i, c in enumerate(rot_own(p, a, ax, o))] for p in pts]
        cls = HexGrid if kind == "hex" else QuadGrid

        def run(container="float-array", tgt=None):
            tgt = tgt or target
            given = {"float-array": lambda: np.array(pts, dtype=float), "list": lambda: [[float(c) for c in p] for p in pts],
                     "int-array": lambda: np.array([[int(round(c)) for c in p] for p in pts])}[container]()
            grid = cls(given, addressing)
            before = [float(c.quality) for c in grid.cells]          # evaluated (and cached) before the move
            for i, p in enumerate(tgt):
                grid.update(i, np.array(p, dtype=float))
            after = [float(c.quality) for c in grid.cells]
            fresh = [float(c.quality) for c in cls(np.array(tgt, dtype=float), addressing).cells]
            return before, after, fresh
        # the points may be handed over as a float array, as plain lists, or (integer coordinates, moved by a rotation that
        # keeps them integers: x -> y -> z -> x plus an integer shift) as an integer array
        turned = [[p[1] + 2.0, p[2] - 1.0, p[0] + 4.0] for p in pts]
        variants = [("float-array", None), ("list", None)]
        if all(abs(c - round(c)) < 1e-12 for p in pts for c in p):
            variants.append(("int-array", turned))
        for container, tgt in variants:
            out = q_safe(lambda: run(container, tgt), what)
            ctx.evaluated(f"{what}:{container}")
            if out is not None:
                before, after, fresh = out
                for k in range(len(before)):
                    add("equal", f"moved-grid:{what}" + ("" if container == "float-array" else f":{container}"),
                        codes=[code(before[k]), code(after[k]), code(fresh[k])], tol=50)
            # ... and after a move that does change the shape (stretched three times along z): the value of the grid built anew
            stretched = [[p[0], p[1], 3.0 * p[2]] for p in pts]
            out = q_safe(lambda: run(container, stretched), what)
            ctx.evaluated(f"{what}:{container}:stretched")
            if out is not None:
                _, after, fresh = out
                for k in range(len(after)):
                    add("equal", f"reshaped-grid:{what}" + ("" if container == "float-array" else f":{container}"),
                        codes=[code(after[k]), code(fresh[k])], tol=50)

    def linked_move(kind, pts, addressing, what):
        # a point of the first cell leads a point that only the SECOND cell has (TranslationLink): after the leader was moved
        # through GridBase.update() every cell's value - the follower's cell included - is that of a grid built anew on the
        # grid's points (the value depends on the shape, not on how the points got there)
        from classy_blocks.optimize.links import TranslationLink
        only_first = [i for i in addressing[0] if i not in addressing[1]]
        only_second = [i for i in addressing[1] if i not in addressing[0]]
        if not only_first or not only_second:
            return
        cls = HexGrid if kind == "hex" else QuadGrid
        lead, follow = only_first[len(what) % len(only_first)], only_second[(len(what) // 2) % len(only_second)]

        def run():
            grid = cls(np.array(pts, dtype=float), addressing)
            _ = [float(c.quality) for c in grid.cells], [float(c.center[0]) for c in grid.cells], float(grid.quality)     # used once
            grid.add_link(TranslationLink(np.array(pts[lead], dtype=float), np.array(pts[follow], dtype=float)))
            out = []
            for step in ([0.21, -0.13, 0.17], [-0.08, 0.19, 0.11]):
                grid.update(lead, np.array(grid.points[lead], dtype=float) + np.array(step))
                after = [float(c.quality) for c in grid.cells]
                fresh = [float(c.quality) for c in cls(np.array(grid.points, dtype=float), addressing).cells]
                out.append((after, fresh))
            moved = float(np.linalg.norm(np.array(grid.points[follow]) - np.array(pts[follow])))
            return out, moved
        res = q_safe(run, what)
        ctx.evaluated(f"linked-move:{what}")
        if res is None:
            return
        out, moved = res
        if moved < 0.1:
            ctx.violation(f"linked-move:follower-still:{kind}", "the follower of a TranslationLink did not move with its leader", {"what": what})
        for after, fresh in out:
            for k in range(len(after)):
                add("equal", f"linked-move:{what}", codes=[code(after[k]), code(fresh[k])], tol=50)

    for name, nb in cat["neighbours"].items():
        base = [list(map(float, cat["hex"][name.split("_")[0]][k])) for k in range(8)]
        nbr = [list(map(float, nb[k])) for k in range(8)]
        pts = base + [p for p in nbr if p not in base]
        moved_grid("hex", pts, [list(range(8)), [pts.index(p) for p in nbr]], f"hex+neighbour:{name}")
        linked_move("hex", pts, [list(range(8)), [pts.index(p) for p in nbr]], f"hex+neighbour:{name}")
    for name, cell in cat["quad"].items():
        base = [list(map(float, cell[k])) for k in range(4)]
        # a neighbour across side 1-2: the quad translated by its edge 0 -> 1 (shares the two points only for parallelograms,
        # otherwise a second, separate cell - both are legitimate grids)
        shift = [base[1][i] - base[0][i] for i in range(3)]
        nbr = [[p[i] + shift[i] for i in range(3)] for p in base]
        pts = base + [p for p in nbr if p not in base]
        moved_grid("quad", pts, [list(range(4)), [pts.index(p) for p in nbr]], f"quad:{name}")
        linked_move("quad", pts, [list(range(4)), [pts.index(p) for p in nbr]], f"quad:{name}")
    for name, cell in cat["quad"].items():
        base = [cell[k] for k in range(4)]
        point, vector, scale = similarity(rng)
        placed = [point(p) for p in base]
        vals = []
        for perm in cat["quadperms"]:
            v = q_safe(lambda: quad_quality([placed[perm[k]] for k in range(4)]), f"quad:{name}")
            ctx.evaluated(f"quad:{name}:{perm}")
            if v is not None:
                vals.append(code(v))
        add("equal", f"renumbering:quad:{name}", codes=vals, tol=5)
        vals = []
        for s in [0.1, 1.0, 100.0]:
            v = q_safe(lambda: quad_quality([[c * s for c in p] for p in base]), f"quad:{name}")
            ctx.evaluated()
            if v is not None:
                vals.append(code(v))
        add("equal", f"scaling:quad:{name}", codes=vals, tol=3000)
    # stretching a cube along each direction
    from .. import hexref
    rows = []
    factors = [1.0, 1.5, 2.0, 3.0, 5.0, 8.0]
    for d in range(3):
        row = []
        for k in factors:
            pts = [[(k if i == d else 1.0) * hexref.XYZ[c][i] for i in range(3)] for c in range(8)]
            v = q_safe(lambda: hex_quality(pts), "stretched-cube")
            ctx.evaluated(f"stretch:{d}:{k}")
            row.append(code(v if v is not None else 0.0))
        rows.append(row)
    add("stretch", "stretch:cube", rows=rows, tol=5)

    path = os.path.join(ctx.tmp, "quality.json")
    with open(path, "w", encoding="utf-8") as f:
        json.dump({"recs": recs}, f)
    res = run_tlc("Quality", "Quality_judge.cfg", env={"VERIF_TRACE_FILE": path}, workers=1, timeout=300)
    ctx.add_tlc(res)
    verdicts = {v["id"]: v["ok"] for v in res.records if "id" in v}
    if len(verdicts) != len(recs):
        raise MachineryError("Quality judge returned too few verdicts")
    for r in recs:
        ctx.validated()
        if not verdicts[r["id"]]:
            ctx.violation(f"quality:{meta[r['id']]}", f"quality values differ within {meta[r['id']]}: " + (f"{len(set(r['codes']))} different codes in {len(r['codes'])} values, e.g. {sorted(set(r['codes']))[:4]}" if len(r.get("codes", [])) > 30 else f"codes {r.get('codes', r.get('rows'))}"), r)
    ctx.sample({"what": meta[1], "codes": recs[0]["codes"][:6]})
    ctx.exhaustive = False
