"""Program generator, executor and TLC judge (Render.tla) shared by C05, C06, C07 and C10."""

from __future__ import annotations

import json
import math
import os
import random
from typing import Dict, List, Optional

from .. import bmd, hexref
from ..common import Ctx, MachineryError
from ..renderlib import shake_vertices, NATURAL_EDGES, SIDES, Geometry, abstract_file, build_mesh, vdist
from ..tlc import run_tlc
from .grading_judge import _apply, _rand_frame

CLAUSE_PROP = {
    "IndicesOK": "C06", "C05_positions": "C05", "C05_shared": "C05", "C05_masterslave": "C05", "C05_dense": "C05",
    "C06_blocks": "C06", "C06_vertexproj": "C06", "C06_vertexproj_exact": "C06", "C06_patchnames": "C06", "C06_patchnames_unique": "C06",
    "C06_patchquads": "C06", "C06_patchtypes": "C06", "C06_faces": "C06", "C06_mesh_level": "C06",
    "C06_geometry_defined": "C06", "C06_vtk": "C06",
    "C07_on_block_edges": "C07", "C07_unique": "C07", "C07_present": "C07", "C07_no_extra": "C07",
}
# clauses that also decide C10's addressing statement (side / edge / corner addressing shows in these)
C10_CLAUSES = {"C06_patchquads", "C06_faces", "C06_vertexproj", "C06_vertexproj_exact", "C07_present", "C07_no_extra", "C07_on_block_edges",
               "C10_face_steps", "C10_face_edges", "C10_get_face", "C06_ops_as_given"}
CLAUSE_PROP.update({"C10_face_steps": "C10", "C10_face_edges": "C10", "C10_get_face": "C10", "C06_ops_as_given": "C06"})


def lattice_geometry(rng: random.Random, general: bool = True) -> Geometry:
    """27 lattice points (3x3x3) with non-uniform spacing, optionally mapped by a random similarity"""
    sp = [sorted(rng.sample([0.0, 0.8, 1.0, 1.7, 2.3, 3.0], 3)) for _ in range(3)]
    rot, org = _rand_frame(rng)
    scale = 10 ** rng.uniform(-1.5, 1.5) if general else 1.0
    if general and rng.random() < 0.2:
        # geo-referenced model: coordinates five to six orders of magnitude above the block size (map coordinates); the merge
        # tolerance, and whatever else is compared with it, is an absolute length
        org = [rng.choice([-1, 1]) * rng.uniform(2e5, 5e5) for _ in range(3)]
        scale = 10 ** rng.uniform(-0.5, 0.5)
    coords = {}
    for x in range(3):
        for y in range(3):
            for z in range(3):
                p = [sp[0][x], sp[1][y], sp[2][z]]
                coords[x + 3 * y + 9 * z] = _apply(rot, org, p, scale) if general else p
    # twins: 3 * merge tolerance away from each lattice point (ids +100): must NOT merge with it
    for pid in list(coords):
        d = [rng.gauss(0, 1) for _ in range(3)]
        n = math.sqrt(sum(x * x for x in d))
        coords[pid + 100] = [coords[pid][i] + 3e-7 * d[i] / n for i in range(3)]
    return Geometry(coords)


def cell_pts(cell, rot_idx: int) -> List[int]:
    img = hexref.SYMS[rot_idx]
    out = []
    for k in range(8):
        c = hexref.XYZ[img[k]]
        out.append((cell[0] + c[0]) + 3 * (cell[1] + c[1]) + 9 * (cell[2] + c[2]))
    return out


# the two slave names sort differently with and without regard to case ("Sb" < "sa", but "sa" < "sb")
PATCH_POOL = ["m1", "sa", "m2", "Sb", "px", "py"]
LABELS = ["g1", "g2", "g3"]
KINDS = ["arc", "origin", "angle", "spline", "polyLine", "project"]


def gen_program(rng: random.Random, focus: str, pid: int) -> dict:
    cells = [(i, j, k) for i in range(2) for j in range(2) for k in range(2)]
    rng.shuffle(cells)
    nops = rng.choice([1, 2, 2, 3, 3, 4])
    ops = []
    eid = 0
    for cell in cells[:nops]:
        rot = rng.choice(hexref.ROT_IDX)
        op = {"pts0": cell_pts(cell, rot), "pts": [], "fops": {"bottom": [], "top": []}, "zone": rng.choice(["", "", "zA", "zB"]),
              "patch": [""] * 6, "sproj": [""] * 6, "sproj_flags": [[False, False] for _ in range(6)],
              "pproj": [[] for _ in range(8)], "pproj_calls": [[] for _ in range(8)], "edges": [], "deleted": False}
        if focus in ("addressing", "edges") and rng.random() < 0.45:
            for fname in ("bottom", "top"):
                for _ in range(rng.choice([0, 1, 1, 2])):
                    op["fops"][fname].append(rng.choice([["invert"], ["shift", rng.choice([1, 2, 3, -1, 5])],
                                                          ["reorient", rng.randrange(4)]]))
        op["share_project"] = rng.random() < 0.4
        ops.append(op)
    plain = lambda op: not op["fops"]["bottom"] and not op["fops"]["top"]   # noqa: E731
    if focus == "vertices":
        for op in ops:
            if rng.random() < 0.4:      # sub-tolerance jitter: unit vectors scaled by 0.3 TOL in build_mesh
                op["jitter"] = []
                for _ in range(8):
                    d = [rng.gauss(0, 1) for _ in range(3)]
                    n = math.sqrt(sum(x * x for x in d))
                    op["jitter"].append([x / n for x in d] if rng.random() < 0.6 else None)
        if len(ops) > 1 and rng.random() < 0.5:
            # one corner that another operation shares is put 3 TOL off: it must get its own vertex
            shared = [(op, c) for op in ops for c in range(8)
                      if any(o2 is not op and op["pts0"][c] in o2["pts0"] for o2 in ops)]
            if shared:
                op, c = rng.choice(shared)
                op["pts0"][c] += 100
                if "jitter" in op:
                    op["jitter"][c] = None
    # patches
    p_patch = {"vertices": 0.35, "file": 0.4, "edges": 0.1, "addressing": 0.5}[focus]
    for op in ops:
        for s in range(6):
            if rng.random() < p_patch:
                op["patch"][s] = rng.choice(PATCH_POOL)
    merged = []
    if focus in ("vertices", "file") and rng.random() < 0.6:
        merged.append(["m1", "sa"])
        if rng.random() < 0.5:
            merged.append(["m2", "Sb"])
        for a in ops:
            for b in ops:
                if a is b:
                    continue
                for sa in range(6):
                    for sb in range(6):
                        va = {a["pts0"][c] for c in hexref.SIDE_CORNERS[SIDES[sa]]}
                        vb = {b["pts0"][c] for c in hexref.SIDE_CORNERS[SIDES[sb]]}
                        if va == vb and rng.random() < 0.6:
                            pair = rng.choice(merged)
                            a["patch"][sa], b["patch"][sb] = pair[0], pair[1]
        # a block carrying master and slave of one pair is left unspecified by the statement: avoid
        for op in ops:
            for pair in merged:
                if pair[0] in op["patch"] and pair[1] in op["patch"]:
                    op["patch"] = [("" if n == pair[1] else n) for n in op["patch"]]
    # edges (before side projections, which must not collide with them)
    p_edge = {"vertices": 0.0, "file": 0.12, "edges": 0.35, "addressing": 0.2}[focus]
    for op in ops:
        for (c1, c2) in NATURAL_EDGES:
            if rng.random() >= p_edge:
                continue
            where = ["bottom", c1] if c1 < 4 and c2 < 4 else (["top", c1 - 4] if c1 >= 4 and c2 >= 4 else ["side", c1])
            if where[0] == "side" and not plain(op):
                continue
            eid += 1
            kind = rng.choice(KINDS)
            e = {"pa": op["pts0"][c1], "pb": op["pts0"][c2], "where": where, "kind": kind, "id": eid, "labels": [],
                 "degenerate": False, "implicit": False, "swap": False,
                 "directed": kind in ("angle", "spline", "polyLine"),
                 "outkind": {"arc": "arc", "origin": "arc", "angle": "arc"}.get(kind, kind)}
            if kind == "project":
                e["labels"] = sorted(rng.sample(LABELS, rng.choice([1, 2])))
                e["first_labels"] = list(e["labels"])
                if len(e["labels"]) == 1 and rng.random() < 0.35:
                    # a second surface given in a second call: the edge is projected to both
                    e["extra"] = rng.choice([x for x in LABELS if x not in e["labels"]])
                    e["labels"] = sorted(e["labels"] + [e["extra"]])
                e["swap"] = rng.random() < 0.5      # project_edge(c2, c1): not direction dependent
                e["where"] = ["any", 0]
            if kind == "arc" and rng.random() < 0.15:
                e["degenerate"] = True              # collinear arc: must be dropped
            op["edges"].append(e)
    if pid % 5 == 0 and focus in ("edges", "addressing") and plain(ops[0]):
        # one Project object on four edges of the first operation (two of the bottom face, one of the top face, one upright):
        # every one of them is written - not left to the random choices above
        op = ops[0]
        op["share_project"] = True
        lab = [rng.choice(LABELS)]
        for (c1, c2) in ((0, 1), (1, 2), (4, 5), (1, 5)):
            op["edges"] = [e for e in op["edges"] if {e["pa"], e["pb"]} != {op["pts0"][c1], op["pts0"][c2]}]
            eid += 1
            op["edges"].append({"pa": op["pts0"][c1], "pb": op["pts0"][c2], "where": ["any", 0], "kind": "project", "id": eid,
                                "labels": list(lab), "first_labels": list(lab), "degenerate": False, "implicit": False, "swap": False,
                                "directed": False, "outkind": "project"})
    # projections of sides and corners
    if focus in ("file", "addressing"):
        for op in ops:
            for s in range(6):
                if rng.random() < 0.2:
                    op["sproj"][s] = rng.choice(LABELS)
        # a side two operations have in common, projected from both of them (to the same surface): it is one face of the mesh,
        # however the two operations number its corners
        owners: Dict[frozenset, list] = {}
        for op in ops:
            for s in range(6):
                owners.setdefault(frozenset(op["pts0"][c] for c in hexref.SIDE_CORNERS[SIDES[s]]), []).append((op, s))
        for pair in owners.values():
            if len(pair) == 2 and rng.random() < 0.5:
                label = rng.choice(LABELS)
                for op, s in pair:
                    op["sproj"][s] = label
        for op in ops:
            for c in range(8):
                if rng.random() < 0.15:
                    labs = sorted(rng.sample(LABELS, rng.choice([1, 1, 2])))
                    op["pproj_calls"][c] = labs
                    op["pproj"][c] = list(labs)
            if pid % 3 == 0 and op is ops[0]:
                # two corners given the same label(s), one of them projected once more in a later call: each corner has the
                # labels it was given, whatever else shares the caller's list
                free = [c for c in range(8) if not op["pproj_calls"][c]]
                if len(free) >= 2:
                    c1, c2 = rng.sample(free, 2)
                    labs = [rng.choice(LABELS)]
                    more = rng.choice([x for x in LABELS if x not in labs])
                    for c in (c1, c2):
                        op["pproj_calls"][c] = list(labs)
                        op["pproj"][c] = sorted(set(op["pproj"][c]) | set(labs))
                    op["pproj_more"] = [[c1, more]]
                    op["pproj"][c1] = sorted(set(op["pproj"][c1]) | {more})
            if focus == "addressing" and plain(op) and not op["edges"]:
                implicit: Dict[frozenset, set] = {}
                for s in range(6):
                    if not op["sproj"][s]:
                        continue
                    flags = [rng.random() < 0.5, rng.random() < 0.5]
                    op["sproj_flags"][s] = flags
                    corners = sorted(hexref.SIDE_CORNERS[SIDES[s]])
                    if flags[1]:
                        for c in corners:
                            if op["sproj"][s] not in op["pproj"][c]:
                                op["pproj"][c] = sorted(op["pproj"][c] + [op["sproj"][s]])
                    if flags[0]:
                        for c1 in corners:
                            for c2 in corners:
                                if c1 < c2 and hexref.is_edge(c1, c2):
                                    implicit.setdefault(frozenset((c1, c2)), set()).add(op["sproj"][s])
                for pair, labs in implicit.items():
                    c1, c2 = sorted(pair)
                    eid += 1
                    op["edges"].append({"pa": op["pts0"][c1], "pb": op["pts0"][c2], "where": ["any", 0], "kind": "project", "id": eid,
                                        "labels": sorted(labs), "degenerate": False, "implicit": True, "swap": False,
                                        "directed": False, "outkind": "project"})
    # deletions
    if focus in ("file",) and len(ops) > 1 and rng.random() < 0.3:
        rng.choice(ops)["deleted"] = True
    # mesh level
    dflt = rng.choice([[], [], ["defaultFaces", "wall"], ["rest", "empty"]]) if focus == "file" else []
    mods = []
    used = sorted({n for op in ops if not op["deleted"] for n in op["patch"] if n})
    if focus == "file" and used:
        for _ in range(rng.choice([0, 1, 2, 3])):
            mods.append([rng.choice(used), rng.choice(["wall", "cyclic", "symmetry"]),
                         rng.choice([None, None, ["neighbourPatch other"], ["inGroups (a b)", "transform none"]])])
    pkind: Dict[str, str] = {}
    pset: Dict[str, list] = {}
    for name, kind, settings in mods:
        pkind[name] = kind
        if settings is not None:
            pset[name] = settings
    geom = [[lab, ["type searchableSphere", "centre (0 0 0)", f"radius {i + 1}"]] for i, lab in enumerate(LABELS)] \
        if focus in ("file", "addressing", "edges") else []
    # a geometry declared a second time: the later declaration is the one in force
    geom_calls = [list(x) for x in geom]
    if geom and rng.random() < 0.4:
        again = rng.choice(geom)
        redecl = [again[0], ["type searchableSphere", "centre (1 2 3)", f"radius {rng.choice([7, 8, 9])}"]]
        geom_calls.append(redecl)
        geom = [redecl if g[0] == again[0] else g for g in geom]
    settings = [["scale", "1"]]
    prog_settings = []
    if focus == "file" and rng.random() < 0.4:
        prog_settings = [["scale", "0.001"], ["mergeType", "points"]]
        settings = [["scale", "0.001"], ["mergeType", "points"]]
    # do two live operations project the same geometric side to different labels?
    seen: Dict[frozenset, str] = {}
    unique = True
    for op in ops:
        if op["deleted"]:
            continue
        for s in range(6):
            if op["sproj"][s]:
                if not plain(op):
                    unique = False      # side -> corner set is only known after the manipulations
                key = frozenset(op["pts0"][c] for c in hexref.SIDE_CORNERS[SIDES[s]])
                if key in seen and seen[key] != op["sproj"][s]:
                    unique = False
                seen.setdefault(key, op["sproj"][s])
    return {"id": pid, "focus": focus, "ops": ops, "merged": merged, "dflt": dflt, "mods": mods,
            "reassemble": rng.random() < 0.3, "reuse": rng.random() < 0.35,
            "pkind": [[k, v] for k, v in pkind.items()], "psettings": [[k, v] for k, v in pset.items()],
            "geom": geom, "geom_calls": geom_calls, "settings": prog_settings, "exp_settings": settings, "unique_face_labels": unique,
            "builtin": False, "count": 2, "corner_lists": rng.random() < 0.5 or pid % 3 == 0, "corners_first": rng.random() < 0.5 or pid % 6 == 0,
            "late_reassemble": (None, None, "backport", None, "clear", None)[pid % 6]}


def reuse_in_second_mesh(prog: dict, lofts: list, geo: Geometry, ctx: Ctx, rng: random.Random) -> Optional[dict]:
    """The user's operations are the user's: after a mesh made of them has been assembled and written, a second Mesh built from
    some of the same objects must be written as if they were new (nothing an assembly computed may have leaked into them).
    Returns the record of the second mesh for TLC, {'error': ...}, or None when there is nothing to reuse."""
    import copy

    import classy_blocks as cb

    live = [i for i, o in enumerate(prog["ops"]) if not o["deleted"]]
    if not live:
        return None
    keep = sorted(rng.sample(live, rng.randint(1, len(live))))
    sub = copy.deepcopy({k: v for k, v in prog.items()})
    sub["ops"] = [copy.deepcopy(prog["ops"][i]) for i in keep]
    sub["id"] = prog["id"] + 100000
    used = {n for o in sub["ops"] for n in o["patch"] if n}
    sub["merged"] = [pair for pair in prog["merged"] if pair[0] in used and pair[1] in used]
    sub["pkind"] = [x for x in prog["pkind"] if x[0] in used]
    sub["psettings"] = [x for x in prog["psettings"] if x[0] in used]
    try:
        mesh = cb.Mesh()
        for i in keep:
            mesh.add(lofts[i])
        for pair in sub["merged"]:
            mesh.merge_patches(pair[0], pair[1])
        if prog["dflt"]:
            mesh.set_default_patch(prog["dflt"][0], prog["dflt"][1])
        mods = {}
        for name, kind, settings in prog["mods"]:
            if name in used:
                mesh.modify_patch(name, kind, settings)
        for label, props in prog["geom"]:
            mesh.add_geometry({label: props})
        for key, val in prog["settings"]:
            mesh.settings[key] = val
        path = os.path.join(ctx.tmp, "prog2.bmd")
        if os.path.exists(path):
            os.remove(path)
        mesh.write(path)
        with open(path, encoding="utf-8") as f:
            parsed = bmd.parse_blockmeshdict(f.read())
    except Exception as err:  # pylint: disable=broad-except
        return {"error": f"reuse:{type(err).__name__}", "msg": str(err)[:300]}
    return make_record(sub, parsed, geo, None)


def make_record(prog: dict, parsed: dict, geo: Geometry, vtk_path: Optional[str]) -> dict:
    af = abstract_file(parsed, prog, geo)
    af["vtk_checked"] = False
    af["vtk_points_match"] = True
    af["vtk_cells"] = []
    if vtk_path:
        try:
            with open(vtk_path, encoding="utf-8") as f:
                v = bmd.parse_vtk(f.read())
            af["vtk_checked"] = True
            pts = v["points"]
            scale = max(1e-12, max(vdist(a["p"], parsed["vertices"][0]["p"]) for a in parsed["vertices"]) if parsed["vertices"] else 1)
            af["vtk_points_match"] = len(pts) == len(parsed["vertices"]) and all(
                vdist(p, q["p"]) < 2e-8 * max(1.0, scale) + 1e-8 for p, q in zip(pts, parsed["vertices"])) and \
                all(t == 12 for t in v["cell_types"])
            af["vtk_cells"] = v["cells"]
        except Exception as err:  # pylint: disable=broad-except
            af["vtk_checked"] = True
            af["vtk_points_match"] = False
    for op in prog["ops"]:
        op["edges_tlc"] = [e for e in op["edges"] if e["pa"] in op["pts"] and e["pb"] in op["pts"]]
    rec = {k: prog[k] for k in ("id", "merged", "dflt", "pkind", "psettings", "geom", "unique_face_labels", "builtin")}
    ekeys = ("pa", "pb", "where", "kind", "outkind", "id", "labels", "degenerate", "directed")
    rec["ops"] = [{"pts0": o["pts0"], "pts": o["pts"], "fsteps": o["fsteps"], "zone": o["zone"], "patch": o["patch"],
                   "sproj": o["sproj"], "pproj": o["pproj"], "deleted": o["deleted"], "get_face": o["get_face"],
                   "edges": [{k: e[k] for k in ekeys} for e in o["edges"]],
                   "edges_tlc": [{k: e[k] for k in ekeys} for e in o["edges_tlc"]]} for o in prog["ops"]]
    rec["settings"] = prog["exp_settings"]
    rec["file"] = af
    return rec


def execute(prog: dict, geo: Geometry, ctx: Ctx, with_vtk: bool = True, keep: Optional[dict] = None) -> dict:
    """run the program through the real API; returns the record for TLC or {'error': ...}"""
    try:
        mesh, lofts = build_mesh(prog, geo)
        if keep is not None:
            keep["lofts"] = lofts
            keep["mesh"] = mesh
    except Exception as err:  # pylint: disable=broad-except
        return {"error": f"build:{type(err).__name__}", "msg": str(err)[:300]}
    path = os.path.join(ctx.tmp, "prog.bmd")
    vtk = os.path.join(ctx.tmp, "prog.vtk")
    for p in (path, vtk):
        if os.path.exists(p):
            os.remove(p)
    try:
        mesh.write(path, vtk if with_vtk else None)
    except Exception as err:  # pylint: disable=broad-except
        return {"error": f"write:{type(err).__name__}", "msg": str(err)[:300]}
    with open(path, encoding="utf-8") as f:
        text = f.read()
    try:
        parsed = bmd.parse_blockmeshdict(text)
    except Exception as err:  # pylint: disable=broad-except
        return {"error": f"parse:{type(err).__name__}", "msg": str(err)[:300]}
    return make_record(prog, parsed, geo, vtk if with_vtk else None)


def judge(ctx: Ctx, recs: List[dict], timeout: int = 900) -> Dict[int, List[str]]:
    path = os.path.join(ctx.tmp, f"render_records_{len(ctx.tlc_runs)}.json")
    with open(path, "w", encoding="utf-8") as f:
        json.dump({"recs": recs}, f)
    res = run_tlc("Render", "Render.cfg", env={"VERIF_TRACE_FILE": path}, workers=1, timeout=timeout)
    ctx.add_tlc(res)
    verdicts = {v["id"]: v["fails"] for v in res.records}
    if len(verdicts) != len(recs):
        raise MachineryError(f"TLC judged {len(verdicts)} of {len(recs)} records")
    return verdicts


def describe(prog: dict) -> dict:
    return {"focus": prog["focus"], "ops": [{"pts0": o["pts0"], "fops": o["fops"], "patch": o["patch"],
                                              "edges": [[e["pa"], e["pb"], e["kind"]] for e in o["edges"]],
                                              "deleted": o["deleted"]} for o in prog["ops"]], "merged": prog["merged"]}


def edge_signature(prog: dict, rec: dict) -> str:
    """abstract key of the first user edge that is not realised: position class and kind"""
    return ""


def run_focus(ctx: Ctx, prop: str, focus: str, n: int, clauses_of_interest=None) -> None:
    rng = random.Random(ctx.seed * 7 + hash(focus) % 1000 if False else ctx.seed * 7 + sum(map(ord, focus)))
    progs, recs, geos = [], [], {}
    for i in range(n):
        prog = gen_program(rng, focus, i + 1)
        geo = lattice_geometry(rng, general=rng.random() < 0.8)
        kept: dict = {}
        rec = execute(prog, geo, ctx, keep=kept)
        ctx.evaluated(json.dumps(describe(prog), sort_keys=True) if len(prog["ops"]) > 1 or focus != "vertices" else None)
        if "error" in rec:
            ctx.violation(f"program-fails:{rec['error']}", f"{focus} program could not be written: {rec['error']}: {rec['msg']}",
                          {"prog": prog, "coords": geo.coords})
            continue
        progs.append(prog)
        recs.append(rec)
        geos[prog["id"]] = geo
        if prog.get("reuse") and "lofts" in kept:
            # (the vertices of the first, written mesh are moved in place before its operations serve a second mesh)
            shake_vertices(kept["mesh"])
            rec2 = reuse_in_second_mesh(prog, kept["lofts"], geo, ctx, rng)
            if rec2 is not None and "error" in rec2:
                ctx.violation(f"program-fails:{rec2['error']}", f"{focus} program: a second mesh made of the same operations could not be "
                              f"written: {rec2['error']}: {rec2['msg']}", {"prog": prog, "coords": geo.coords})
            elif rec2 is not None:
                sub = dict(prog, id=rec2["id"], second=True)
                progs.append(sub)
                recs.append(rec2)
                geos[rec2["id"]] = geo
    if not recs:
        return
    verdicts = judge(ctx, recs)
    for prog, rec in zip(progs, recs):
        ctx.validated()
        for c in verdicts[prog["id"]]:
            owner = CLAUSE_PROP[c]
            mine = owner == prop or (prop == "C10" and c in C10_CLAUSES) or (c == "IndicesOK")
            if clauses_of_interest is not None:
                mine = c in clauses_of_interest
            if not mine:
                continue
            for sig in violation_signatures(c, prog, rec):
                if prop == "C10" and ":reversed:" in sig:
                    continue   # the edge still joins its two points (C10); the direction of its data is C07's subject
                if prog.get("second"):
                    sig += ":second-mesh"
                ctx.violation(sig, f"{focus} program {prog['id']}: Render.tla clause {c} rejected the written file",
                              {"prog": prog, "coords": {str(k): v for k, v in geos[prog['id']].coords.items()}, "file": rec["file"]})
    ctx.sample(describe(progs[0]))


def violation_signatures(clause: str, prog: dict, rec: dict) -> List[str]:
    """deterministic abstract keys: the clause, refined for edge clauses by (position class, kind) of each offending
    edge and for face clauses by the manipulation"""
    if clause == "C10_face_steps":
        kinds = set()
        for op in prog["ops"]:
            for fname in ("bottom", "top"):
                before = op["pts0"][:4] if fname == "bottom" else op["pts0"][4:]
                for st in op["fsteps"][fname]:
                    rots = [before[k:] + before[:k] for k in range(4)]
                    rev = before[::-1]
                    revrots = [rev[k:] + rev[:k] for k in range(4)]
                    ok = (st["pts"] in revrots) if st["op"] == "invert" else (st["pts"] in rots)
                    if st["op"] == "reorient" and ok:
                        ok = st["pts"][0] == before[st["arg"]]
                    if st["op"] == "shift" and ok and st["arg"] % 4 == 0:
                        ok = st["pts"] == before
                    if not ok:
                        kinds.add(st["op"] + (f":k={st['arg']}" if st["op"] == "reorient" else ""))
                    before = st["pts"]
        return [f"render:C10_face_steps:{k}" for k in sorted(kinds)] or ["render:C10_face_steps:final-order"]
    if clause not in ("C07_present", "C07_no_extra"):
        return [f"render:{clause}"]
    live = [o for o in prog["ops"] if not o["deleted"]]
    fedges = rec["file"]["edges"]
    keys = set()
    for bi, op in enumerate(live):
        blk = rec["file"]["blocks"][bi]["v"] if bi < len(rec["file"]["blocks"]) else None
        for e in op["edges"]:
            if e["kind"] == "line" or e["degenerate"] or blk is None or e["pa"] not in op["pts"] or e["pb"] not in op["pts"]:
                continue
            ends = {blk[op["pts"].index(e["pa"])], blk[op["pts"].index(e["pb"])]}
            fe = [x for x in fedges if {x["v1"], x["v2"]} == ends]
            posclass = "regular"
            if e["where"][0] in ("bottom", "top"):
                ninv = sum(1 for st in op["fops"][e["where"][0]] if st[0] == "invert")
                if ninv % 2 == 1:
                    posclass = "inverted-face"
                elif op["fops"][e["where"][0]]:
                    posclass = "shifted-face"
                elif e["where"][1] == 3:
                    posclass = "closing"
            if not fe:
                keys.add(f"missing:{posclass}:{e['kind']}")
            elif e["directed"] and fe[0]["id"] == e["id"] and not fe[0]["consistent"]:
                keys.add(f"reversed:{posclass}:{e['kind']}")
            elif fe[0]["id"] != e["id"] and not any(e2["id"] == fe[0]["id"] for o2 in live for e2 in o2["edges"]):
                keys.add(f"wrong-data:{posclass}:{e['kind']}")
    if not keys:
        return [f"render:{clause}:other"]
    return [f"render:C07_edge:{k}" for k in sorted(keys)]
