"""C02 - grading propagation terminates, completes and is order-independent.

1. TLC checks Grading.tla ("fixed" variant = algorithm of the current tree) for the progress
   bound, termination under weak fairness, completeness and the declarative outcome, over
   topologies x corner numberings x insertion orders x chop placements (well-posed and
   under-specified) x every iteration order of the neighbour/coincident sets.
   (thorough: the "shipped" variant must still exhibit the livelock counterexample.)
2. Every configuration is replayed into Mesh.write() under several forced set-iteration
   schedules with a step budget: outcome class, counts, and equality of the files across
   schedules are compared.
3. Random assemblies of real shapes are judged by TLC (GradingJudge.tla: complete/under).
4. thorough: fresh interpreter processes (no forced schedule) must agree with each other.
"""

from __future__ import annotations

import json
import os
import random
import subprocess
import sys

from ..common import SRC, VERIF, Ctx, MachineryError
from ..tlc import run_tlc
from . import grading as g
from . import grading_judge


def consts(tier: str, part: str):
    # cover and chain: the same assembled mesh is graded (written) a second time (Regrade)
    base = {"Variant": '"fixed"', "Rot1Choice": "{1}", "PassBound": "4", "Rounds": "1" if part == "free" else "2"}
    if part == "multi":
        # two-section chops (different counts per section) between two blocks in many relative numberings, flipped ones included
        base.update({"Topos": g.tla_set(["face2", "edge2"]), "RotChoice": "{1, 4, 7, 11, 30, 43}",
                     "ChopOpts": g.tla_set(["A2", "D1E2"]), "MaxChopped": "0", "Cover": "TRUE", "AllOrders": "TRUE"})
        return base
    if part == "swap4":
        # a row of four whose inner blocks are numbered with their first two axes swapped relative to each other (first axis of
        # the one along the second family, first axis of the other along the third): every axis of a block is to be tried in
        # every pass, whatever the other axes are waiting for
        base.update({"Topos": g.tla_set(["row4"]), "RotChoice": "{33, 42}",
                     "ChopOpts": g.tla_set(["A2"]), "MaxChopped": "0", "Cover": "TRUE", "AllOrders": "FALSE"})
        return base
    if part == "chain5":
        # a row of FIVE, one chop per family, every insertion order: the two directions the blocks share are chopped on any two
        # blocks - up to four apart, so that the blocks in between are completed in two steps, and a whole sweep of the
        # fix-point loop may define directions without completing any block (progress all the same)
        # (quick: the row as it stands and in two fixed insertion orders, all 25 placements each; thorough: all 120 orders)
        base.update({"Topos": g.tla_set(["row5", "row5a", "row5b"] if tier == "quick" else ["row5"]), "RotChoice": "{1}", "Rounds": "1",
                     "ChopOpts": g.tla_set(["A2"]), "MaxChopped": "0", "Cover": "TRUE", "AllOrders": "FALSE" if tier == "quick" else "TRUE"})
        return base
    if tier == "quick":
        if part == "free":
            base.update({"Topos": g.tla_set(["face2", "edge2", "hook3"]), "RotChoice": "{1, 30}",
                         "ChopOpts": g.tla_set(["A2", "B3"]), "MaxChopped": "2", "Cover": "FALSE", "AllOrders": "TRUE"})
        elif part == "chain":
            # a chain fed from one end, in every insertion order: progress must not depend on the visiting order
            base.update({"Topos": g.tla_set(["row4"]), "RotChoice": "{1}",
                         "ChopOpts": g.tla_set(["A2"]), "MaxChopped": "0", "Cover": "TRUE", "AllOrders": "TRUE"})
        else:
            base.update({"Topos": g.tla_set(["ell3", "tee4b"]), "RotChoice": "{1, 43}",
                         "ChopOpts": g.tla_set(["A2"]), "MaxChopped": "1", "Cover": "TRUE", "AllOrders": "FALSE"})
    else:
        if part == "chain":
            base.update({"Topos": g.tla_set(["row4", "zig4"]), "RotChoice": "{1, 30}",
                         "ChopOpts": g.tla_set(["A2"]), "MaxChopped": "0", "Cover": "TRUE", "AllOrders": "TRUE"})
        elif part == "live":
            # liveness (Terminates, under weak fairness) is checked on the small parts only: it is what costs TLC most
            base.update({"Topos": g.tla_set(["row4", "tee4b"]), "RotChoice": "{1}",
                         "ChopOpts": g.tla_set(["A2"]), "MaxChopped": "0", "Cover": "TRUE", "AllOrders": "FALSE"})
        elif part == "free":
            base.update({"Topos": g.tla_set(["face2", "edge2", "corner2", "row3", "ell3", "hook3", "stair3"]),
                         "RotChoice": "{1, 30}", "Rot1Choice": "{1, 11}",
                         "ChopOpts": g.tla_set(["A2", "B3", "C2"]), "MaxChopped": "2", "Cover": "FALSE", "AllOrders": "TRUE"})
        elif part == "cover":
            # three blocks: two-section chops and three numberings
            base.update({"Topos": g.tla_set(["row3", "ell3", "hook3", "stair3"]), "RotChoice": "{1, 30, 43}",
                         "ChopOpts": g.tla_set(["A2", "D1E2"]), "MaxChopped": "1", "Cover": "TRUE", "AllOrders": "FALSE"})
        else:
            # cover4 - four blocks: one chop law, two numberings
            base.update({"Topos": g.tla_set(["tee4", "tee4b", "sq4", "zig4"]), "RotChoice": "{1, 30}",
                         "ChopOpts": g.tla_set(["A2"]), "MaxChopped": "1", "Cover": "TRUE", "AllOrders": "FALSE"})
    return base


INVS = ["TypeOK", "PassBoundOK", "OutcomeOK", "WrittenAgree", "Complete", "SharedSame", "NoPartial"]


def shipped_counterexample(ctx: Ctx) -> None:
    """The model of the pinned commit's algorithm must reproduce the livelock (non-vacuity of PassBoundOK)."""
    c = {"Variant": '"shipped"', "Topos": g.tla_set(["tee4b"]), "Rot1Choice": "{1}", "RotChoice": "{1}",
         "ChopOpts": g.tla_set(["A2"]), "MaxChopped": "6", "Cover": "FALSE", "AllOrders": "FALSE", "PassBound": "4", "Rounds": "1"}
    res = run_tlc("Grading", "shipped.cfg", cfg_text=g.cfg_text("Spec", c, ["PassBoundOK"]), workers=16, timeout=900,
                  expect_ok=False)
    ctx.add_tlc(res)
    if res.ok or "PassBoundOK is violated" not in res.out:
        raise MachineryError("the 'shipped' variant of Grading.tla no longer exhibits the livelock counterexample")
    ctx.notes.append("shipped variant: TLC reports the PassBoundOK (livelock) counterexample on tee4b as expected")


def run(ctx: Ctx) -> None:
    ctx.rule = ("configurations = Init states of Grading.tla (topology x numbering x insertion order x chop placement); "
                "each replayed under several forced iteration orders of Axis.neighbours/Wire.coincidents; "
                "non-trivial = propagation has to cross at least one shared edge; distinct by (vertex ids, chops)")
    rng = random.Random(ctx.seed + 2)
    n_sched = 2 if ctx.tier == "quick" else 4
    limit = 260 if ctx.tier == "quick" else 4000
    for part in ("free", "cover", "chain", "multi", "swap4", "chain5") + (("cover4", "live") if ctx.tier == "thorough" else ()):
        c = consts(ctx.tier, part)
        cfgs = g.model_check(ctx, c, INVS, props=["Terminates"] if ctx.tier == "thorough" and part in ("swap4", "live", "multi") else [],
                             timeout=3000, emit=True).records
        if part == "chain5":
            # replayed first: the placements with the two shared directions chopped at opposite ends of the row, in every order emitted
            def ends(cfg):
                owners = [b for b, blk in enumerate(cfg["chops"]) if sum(1 for ax in blk if ax) > 1]
                return len(owners) == 2 and [sum(1 for ax in cfg["chops"][b] if ax) for b in owners] == [2, 2] \
                    and {min(cfg["verts"][b]) for b in owners} == {min(min(v) for v in cfg["verts"]), max(min(v) for v in cfg["verts"])}
            far = [c for c in cfgs if ends(c)]
            if len(far) < (6 if ctx.tier == "quick" else 240):
                raise MachineryError(f"chain5: only {len(far)} far-end placements among {len(cfgs)} configurations")
            rest = [c for c in cfgs if not ends(c)]
            rng.shuffle(rest)
            cfgs = far + rest[: max(0, limit - len(far))]
            ctx.exhaustive = False
        if len(cfgs) > limit:
            rng.shuffle(cfgs)
            # prefer configurations where something has to propagate
            cfgs.sort(key=lambda x: 0 if x["nfam"] < 3 * x["nb"] else 1)
            cfgs = cfgs[:limit]
            ctx.exhaustive = False
        for cfg in cfgs:
            texts = set()
            for k in range(n_sched):
                obs = g.observe(cfg, ctx, random.Random(rng.random()))
                ctx.evaluated(g.cfg_key(cfg) if cfg["nfam"] < 3 * cfg["nb"] else None)
                ctx.validated()
                bad = g.judge_outcome("C02", cfg, obs)
                if bad:
                    ctx.violation(bad[0], bad[1], {"cfg": g.summarize(cfg), "observed": obs["outcome"], "schedule": k})
                texts.add(g.canon(obs))
            if len(texts) > 1:
                sig = "nondeterministic:multilaw-family" if cfg["multilaw"] else "nondeterministic:single-law"
                ctx.violation(sig, "the same script ends differently under different set-iteration orders",
                              {"cfg": g.summarize(cfg), "n_results": len(texts)})
            ctx.sample(g.summarize(cfg))
    grading_judge.random_assemblies(ctx, "C02", n=40 if ctx.tier == "quick" else 400)
    if ctx.tier == "thorough":
        shipped_counterexample(ctx)
        fresh_interpreters(ctx, rng)


FRESH = r"""
import sys, json, warnings
warnings.simplefilter("ignore")
sys.path.insert(0, sys.argv[1]); sys.path.insert(0, sys.argv[2])
from harness.gradelib import build_mesh
cfg = json.loads(sys.argv[3])
mesh, _ = build_mesh(cfg)
import signal
signal.alarm(20)
try:
    mesh.write(sys.argv[4])
    print("Written")
except Exception as e:
    print(type(e).__name__)
"""


def fresh_interpreters(ctx: Ctx, rng: random.Random) -> None:
    """No forced schedule: K fresh interpreters (different object addresses) must end the same way."""
    c = consts("quick", "cover")
    cfgs = g.generate(ctx, c)
    rng.shuffle(cfgs)
    for cfg in cfgs[:25]:
        results = set()
        for k in range(4):
            path = os.path.join(ctx.tmp, f"fresh{k}.bmd")
            if os.path.exists(path):
                os.remove(path)
            env = dict(os.environ)
            env.pop("PYTHONHASHSEED", None)
            try:
                proc = subprocess.run([sys.executable, "-c", FRESH, SRC, VERIF, json.dumps(cfg), path], capture_output=True,
                                      text=True, timeout=60, env=env, check=False)
                out = proc.stdout.strip().splitlines()[-1] if proc.stdout.strip() else f"exit{proc.returncode}"
            except subprocess.TimeoutExpired:
                out = "Hang"
            if out == "Written":
                with open(path, encoding="utf-8") as f:
                    out = f.read()
            results.add(out)
            ctx.evaluated()
        if "Hang" in results or any(r.startswith("exit") for r in results):
            ctx.violation("fresh-interpreter:hang", "Mesh.write() did not return in a fresh interpreter", {"cfg": g.summarize(cfg)})
        elif len(results) > 1:
            sig = "nondeterministic:multilaw-family" if cfg["multilaw"] else "nondeterministic:single-law"
            ctx.violation(sig, "fresh interpreter runs of the same script end differently", {"cfg": g.summarize(cfg)})


def replay(ctx: Ctx, data: dict) -> None:
    cfg = data["replay"]["cfg"]
    full = {"nb": cfg["nb"], "verts": cfg["verts"], "expected": cfg["expected"], "counts": cfg["counts"], "nfam": 0,
            "multilaw": False, "chops": [[[{"law": l, "cnt": 0} for l in ax] for ax in blk] for blk in cfg["chops"]]}
    rng = random.Random(ctx.seed)
    ctx.cov["states"] = ctx.cov["transitions"] = 1
    for k in range(20):
        obs = g.observe(full, ctx, random.Random(rng.random()))
        ctx.evaluated("replay")
        bad = g.judge_outcome("C02", full, obs)
        if bad:
            ctx.violation(bad[0], bad[1], {"cfg": cfg, "observed": obs["outcome"], "schedule": k})
