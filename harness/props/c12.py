"""C12 - assemble/clear/backport/delete/write round trips preserve the model.

Mesh.tla is the life-cycle state machine; TLC checks its action properties and enumerates
(BFS, bounded length) or samples (-simulate, longer) histories of public calls together with,
for every Write, the freshly built model the written dictionary must be equal to.  Each history
is replayed through the real Mesh API; after every write the parsed file is compared with the
parsed file of that fresh model, and the entities' points with the specification's positions.
"""

from __future__ import annotations

import random
from typing import List

from ..common import Ctx, MachineryError
from .. import meshlib
from ..meshlib import apply_settings, base_pos, build_fresh, first_diff, make_op, new_mesh, pos_coords, write_and_parse
from ..tlc import run_tlc
from .grading import cfg_text


def mc_and_gen(ctx: Ctx, nops: int, maxlen: int, maxwrites: int, simulate=None, depth=None, seed=None) -> List[dict]:
    consts = {"Variant": '"fixed"', "NOps": str(nops), "MaxLen": str(maxlen), "MaxWrites": str(maxwrites)}
    if simulate is None:
        text = cfg_text("Spec", consts, ["TypeOK", "BlocksAreLive"], ["RoundTripStable", "BackportExact", "WriteIdempotent"])
        res = run_tlc("Mesh", "mc.cfg", cfg_text=text, workers=16, timeout=1200)
        ctx.add_tlc(res)
    text = cfg_text("Spec", consts, ["TypeOK"], constraints=["Emit"])
    res = run_tlc("Mesh", "gen.cfg", cfg_text=text, workers=1, timeout=1200, simulate=simulate, depth=depth, seed=seed)
    ctx.add_tlc(res)
    if not res.records:
        raise MachineryError("Mesh.tla produced no histories")
    return res.records


def replay_history(ctx: Ctx, rec: dict, nops: int):
    """returns list of (signature, description) problems"""
    import classy_blocks as cb
    import numpy as np

    problems = []
    # every third history is replayed far from the origin with small moves
    meshlib.place(meshlib.FAR if rec.get("far") else meshlib.NEAR)
    meshlib.PLACEMENT["variant"] = rec.get("variant", "A")
    ops = {o: make_op(o, nops, [base_pos(o, k) for k in range(1, 9)]) for o in range(1, nops + 1)}
    mesh = new_mesh()
    w = 0
    since: List[str] = []
    for call in rec["hist"]:
        name = call[0]
        try:
            if name == "add":
                mesh.add(ops[call[1]])
            elif name == "delete":
                mesh.delete(ops[call[1]])
            elif name == "assemble":
                mesh.assemble()
            elif name == "move":
                v = mesh.blocks[call[1] - 1].vertices[call[2] - 1]
                v.move_to([v.position[i] + meshlib.delta()[i] for i in range(3)])
            elif name == "backport":
                mesh.backport()
            elif name == "clear":
                mesh.clear()
            elif name == "modify_patch":
                mesh.modify_patch(call[1], call[2], ["foo bar"] if call[3] else None)
            elif name == "set_default_patch":
                mesh.set_default_patch("dflt", call[1])
            elif name == "merge_patches":
                mesh.merge_patches(call[1], call[2])
            elif name == "write":
                exp = rec["writes"][w]
                w += 1
                got = write_and_parse(mesh, ctx.tmp, "hist")
                ref = write_and_parse(build_fresh(exp["fresh"], nops), ctx.tmp, "fresh")
                ctx.evaluated()
                ctxt = "+".join(sorted(set(since))) or "nothing"
                if "error" in ref:
                    # a model that cannot be graded (the operation that takes its cells from a neighbour stands alone)
                    if ref["error"] not in ("UndefinedGradingsError", "InconsistentGradingsError"):
                        raise MachineryError(f"fresh model cannot be written: {ref}")
                    if got.get("error") != ref["error"]:
                        problems.append((f"write-differs:after:{ctxt}:outcome", f"write #{w} ended with {got.get('error', 'a file')}, "
                                         f"the fresh model cannot be graded ({ref['error']})"))
                elif "error" in got:
                    problems.append((f"write-fails:after:{ctxt}:{got['error']}", f"write #{w} raised {got['error']}: {got['msg']}"))
                else:
                    d = first_diff(got["file"], ref["file"])
                    if d:
                        top = d.split("/")[1].split("[")[0] if "/" in d else "?"
                        problems.append((f"write-differs:after:{ctxt}:{top}", f"write #{w} differs from the fresh model at {d}"))
                # entity positions
                for o in range(1, nops + 1):
                    want = np.array([pos_coords(p) for p in exp["epos"][o - 1]])
                    if not np.allclose(ops[o].point_array, want, rtol=0, atol=1e-9):
                        problems.append((f"entity-positions:after:{ctxt}", f"operation {o} has points differing from the model at write #{w}"))
                        break
                since = ["write"]
                continue
            else:
                raise MachineryError(f"unknown call {call}")
        except MachineryError:
            raise
        except Exception as err:  # pylint: disable=broad-except
            problems.append((f"exception:{name}:{type(err).__name__}", f"{call} raised {type(err).__name__}: {err}"))
            break
        since.append(name)
    return problems


def run(ctx: Ctx) -> None:
    ctx.rule = ("histories = behaviours of Mesh.tla ending in write (BFS to the length bound, plus -simulate for longer ones); "
                "non-trivial = contains at least one of clear/backport/delete/move/second write; distinct by call sequence")
    rng = random.Random(ctx.seed + 12)
    # (the third quick plan: every history of three operations that is write / assemble, one or two moves, write - the short
    #  histories in which gradings have to follow the vertices - rather than leaving them to the simulated behaviours)
    geometry_only = {"add", "write", "move", "assemble"}
    if ctx.tier == "quick":
        plans = [(2, 4, 2, None, None, 500, None), (3, 9, 3, "num=400", 12, 400, None), (3, 3, 2, None, None, 120, geometry_only)]
    else:
        plans = [(2, 6, 3, None, None, 6000, None), (3, 6, 2, None, None, 6000, None), (3, 12, 4, "num=5000", 13, 5000, None),
                 (3, 4, 2, None, None, 3000, geometry_only)]
    for (nops, maxlen, maxwrites, sim, depth, limit, only) in plans:
        recs = mc_and_gen(ctx, nops, maxlen, maxwrites, simulate=sim, depth=depth, seed=ctx.seed + 1 if sim else None)
        if only is not None:
            recs = [r for r in recs if {c[0] for c in r["hist"]} <= only and any(c[0] == "move" for c in r["hist"])]
        if len(recs) > limit:
            rng.shuffle(recs)
            recs = recs[:limit]
            ctx.exhaustive = False
        for k, rec in enumerate(recs):
            rec["far"] = k % 3 == 2
            rec["variant"] = "B" if (k % 2 == 1 or only is not None) else "A"
            names = {c[0] for c in rec["hist"]}
            nontrivial = bool(names & {"clear", "backport", "delete", "move"}) or [c[0] for c in rec["hist"]].count("write") > 1
            probs = replay_history(ctx, rec, nops)
            ctx.validated()
            if nontrivial:
                ctx.nontrivial.add(str(rec["hist"]))
            for sig, what in probs:
                ctx.violation(sig + (":far-from-origin" if rec["far"] else ""), what, {"nops": nops, "hist": rec["hist"], "writes": rec["writes"], "far": rec["far"], "variant": rec["variant"]})
            ctx.sample({"nops": nops, "hist": rec["hist"]})


def replay(ctx: Ctx, data: dict) -> None:
    rec = data["replay"]
    ctx.cov["states"] = ctx.cov["transitions"] = 1
    for sig, what in replay_history(ctx, rec, rec["nops"]):
        ctx.violation(sig, what, rec)
