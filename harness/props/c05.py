"""C05 - decided by Render.tla on recorded executions of generated programs (see render.py)."""

from __future__ import annotations

from ..common import Ctx
from .. import examples
from . import render

FOCUS = {"C05": ["vertices"], "C06": ["file", "addressing"], "C07": ["edges"], "C10": ["addressing", "edges"]}["C05"]


def run(ctx: Ctx) -> None:
    ctx.rule = ("programs = random abstract user scripts (lattice hexahedra with random corner numbering, patches, merges, "
                "projections, edges, face manipulations, deletions); the written file is parsed and judged by TLC against "
                "Render.tla; non-trivial = more than one operation or any edge/projection; distinct by program content")
    n = 150 if ctx.tier == "quick" else 2500
    for focus in FOCUS:
        render.run_focus(ctx, "C05", focus, n // len(FOCUS))
    extra(ctx)
    # the repository's example scripts as recorded executions: File.tla OnePerPoint / NoOrphans on what they write
    examples.judge_examples(ctx, "C05")


def extra(ctx: Ctx) -> None:
    """Vertices.tla: the insertion state machine is model-checked against the declarative statement for all insertion
    orders / numberings / patch placements of two- and three-block assemblies; every finished configuration TLC emits
    is (sampled and) replayed through Mesh.assemble()/write() and judged by Render.tla like the random programs."""
    import random

    from ..tlc import run_tlc
    from .grading import cfg_text

    rng = random.Random(ctx.seed + 5)
    plans = [("2", "{30}", "1", "3")] if ctx.tier == "quick" else [("2", "{1, 11, 30, 43}", "1", "3"), ("3", "{1, 11, 30}", "0", "2")]
    for nblocks, rots, maxp, merged in plans:
        consts = {"NBlocks": nblocks, "RotChoice": rots, "MaxPatched": maxp, "MergedIdx": merged}
        text = cfg_text("Spec", consts, ["Positions", "Shared", "Distinct", "MasterSlave", "Dense", "OrderFree"], constraints=["Emit"])
        res = run_tlc("Vertices", "vertices.cfg", cfg_text=text, workers=4 if ctx.tier == "quick" else 16, timeout=3000)
        ctx.add_tlc(res)
        cfgs = [r for r in res.records if "pts" in r]
        rng.shuffle(cfgs)
        progs, recs, geos = [], [], {}
        for k, cfg in enumerate(cfgs[: (120 if ctx.tier == "quick" else 1500)]):
            nb = len(cfg["pts"])
            ops = []
            for b in cfg["order"]:
                ops.append({"pts0": list(cfg["pts"][b - 1]), "pts": [], "fops": {"bottom": [], "top": []}, "zone": "",
                            "patch": list(cfg["patch"][b - 1]), "sproj": [""] * 6, "sproj_flags": [[False, False] for _ in range(6)],
                            "pproj": [[] for _ in range(8)], "pproj_calls": [[] for _ in range(8)], "edges": [], "deleted": False})
            prog = {"id": k + 1, "focus": "vertices-exhaustive", "ops": ops, "merged": [list(p) for p in cfg["merged"]], "dflt": [], "mods": [],
                    "pkind": [], "psettings": [], "geom": [], "settings": [], "exp_settings": [["scale", "1"]],
                    "unique_face_labels": True, "builtin": False, "count": 2}
            geo = render.lattice_geometry(rng, general=rng.random() < 0.5)
            rec = render.execute(prog, geo, ctx, with_vtk=False)
            ctx.evaluated(f"vx:{cfg['pts']}:{cfg['patch']}:{cfg['order']}")
            if "error" in rec:
                ctx.violation(f"program-fails:{rec['error']}", f"exhaustive vertices configuration could not be written: {rec['msg']}", {"cfg": cfg})
                continue
            if len(rec["file"]["vpos"]) != cfg["nverts"]:
                ctx.violation("vertices:count-differs-from-model", f"{len(rec['file']['vpos'])} vertices written, the insertion model has {cfg['nverts']}", {"cfg": cfg})
            progs.append(prog)
            recs.append(rec)
        if recs:
            verdicts = render.judge(ctx, recs)
            for prog, rec in zip(progs, recs):
                ctx.validated()
                for c in verdicts[prog["id"]]:
                    if render.CLAUSE_PROP[c] == "C05" or c == "IndicesOK":
                        ctx.violation(f"render:{c}", f"exhaustive vertices configuration {prog['id']}: Render.tla clause {c} rejected the written file",
                                      {"prog": prog, "file": rec["file"]})
    two_slave_corners(ctx, rng)


def two_slave_corners(ctx: Ctx, rng) -> None:
    """Corners where the slave patches of TWO merged pairs meet, shared by two slave-side blocks: two cells side by side carry
    slave patch "sa" on top and slave patch "Sb" in front (names that sort differently with and without regard to case); the
    cells above carry the master of the first pair, the cells in front the master of the second. Every insertion order of
    the six blocks is a program; judged by the Render.tla vertex clauses like any other."""
    import itertools

    from ..renderlib import SIDES
    side = {name: i for i, name in enumerate(SIDES)}
    cells = {"A": (0, 1, 0), "B": (1, 1, 0), "C": (0, 1, 1), "D": (1, 1, 1), "E": (0, 0, 0), "F": (1, 0, 0)}
    patches = {"A": {"top": "sa", "front": "Sb"}, "B": {"top": "sa", "front": "Sb"}, "C": {"bottom": "m1"}, "D": {"bottom": "m1"},
               "E": {"back": "m2"}, "F": {"back": "m2"}}
    orders = list(itertools.permutations("ABCDEF"))
    rng.shuffle(orders)
    progs, recs = [], []
    for k, order in enumerate(orders[: (40 if ctx.tier == "quick" else 720)]):
        ops = []
        for name in order:
            patch = [""] * 6
            for sd, pn in patches[name].items():
                patch[side[sd]] = pn
            ops.append({"pts0": render.cell_pts(cells[name], 1), "pts": [], "fops": {"bottom": [], "top": []}, "zone": "", "patch": patch,
                        "sproj": [""] * 6, "sproj_flags": [[False, False] for _ in range(6)], "pproj": [[] for _ in range(8)],
                        "pproj_calls": [[] for _ in range(8)], "edges": [], "deleted": False})
        prog = {"id": 500000 + k, "focus": "two-slave-corner", "ops": ops, "merged": [["m1", "sa"], ["m2", "Sb"]], "dflt": [], "mods": [],
                "pkind": [], "psettings": [], "geom": [], "settings": [], "exp_settings": [["scale", "1"]], "unique_face_labels": True,
                "builtin": False, "count": 2}
        geo = render.lattice_geometry(rng, general=rng.random() < 0.5)
        rec = render.execute(prog, geo, ctx, with_vtk=False)
        ctx.evaluated(f"two-slave-corner:{order}")
        if "error" in rec:
            ctx.violation(f"program-fails:{rec['error']}", f"two-slave-corner program could not be written: {rec['msg']}", {"order": order})
            continue
        progs.append(prog)
        recs.append(rec)
    if recs:
        verdicts = render.judge(ctx, recs)
        for prog, rec in zip(progs, recs):
            ctx.validated()
            for c in verdicts[prog["id"]]:
                if render.CLAUSE_PROP[c] == "C05" or c == "IndicesOK":
                    ctx.violation(f"render:{c}:two-slave-corner", f"two-slave-corner program: Render.tla clause {c} rejected the written file",
                                  {"order": [o["patch"] for o in prog["ops"]], "file": rec["file"]})
