"""C09 - transforming or copying an entity equals transforming its output geometry.

Xform.tla enumerates compositions of up to three exact lattice maps (translations, quarter turns about lattice axes
through arbitrary origins with non-unit axes, integer scalings about arbitrary origins, mirrors in planes through
arbitrary points with non-unit normals) and computes the exact images of probe points / vectors and the length
ratio; TLC checks that every composition is a similarity.  The harness implements the same maps on floats, proves
its implementation against TLC's exact images, applies each list to real entities (points, faces and operations
with every edge kind, sketches, shapes, stacks, an assembly, curves) by method calls or as a transformation list,
and compares the output geometry (vertices, arc third points, spline points, edge lengths) with the image of the
untransformed entity's output.  copy() independence and argument immutability of the helpers are checked too.
"""

from __future__ import annotations

import math
import random
from typing import Callable, Dict, List

from ..common import Ctx, MachineryError
from ..renderlib import vadd, vcross, vdist, vdot, vmul, vnorm, vsub
from ..tlc import run_tlc
from .c19 import rodrigues
from .grading import cfg_text


# ------------------------------------------------------------------ the maps, harness side
def apply_one(t: dict, p, linear: bool = False):
    k = t["kind"]
    o = [0.0, 0.0, 0.0] if linear else [float(x) for x in t["o"]]
    if k == "translate":
        return list(p) if linear else vadd(p, t["d"])
    if k == "rotate":
        return rodrigues(p, [float(x) for x in t["axis"]], t["q"] * math.pi / 2, o)
    if k == "scale":
        return vadd(o, vmul(vsub(p, o), t["r"]))
    if k == "mirror":
        n = [float(x) for x in t["axis"]]
        v = vsub(p, o)
        return vadd(o, vsub(v, vmul(n, 2 * vdot(v, n) / vdot(n, n))))
    raise ValueError(k)


def apply_all(ts: List[dict], p, linear: bool = False):
    for t in ts:
        p = apply_one(t, p, linear)
    return p


def transform_entity(entity, ts: List[dict], style: str):
    import classy_blocks as cb

    if style == "list":
        lst = []
        for t in ts:
            if t["kind"] == "translate":
                lst.append(cb.Translation(t["d"]))
            elif t["kind"] == "rotate":
                lst.append(cb.Rotation(t["axis"], t["q"] * math.pi / 2, t["o"]))
            elif t["kind"] == "scale":
                lst.append(cb.Scaling(t["r"], t["o"]))
            else:
                lst.append(cb.Mirror(t["axis"], t["o"]))
        return entity.transform(lst)
    for t in ts:
        if t["kind"] == "translate":
            entity.translate(t["d"])
        elif t["kind"] == "rotate":
            entity.rotate(t["q"] * math.pi / 2, t["axis"], t["o"])
        elif t["kind"] == "scale":
            entity.scale(t["r"], t["o"])
        else:
            entity.mirror(t["axis"], t["o"])
    return entity


# ------------------------------------------------------------------ entities
def builders() -> Dict[str, Callable[[], object]]:
    import classy_blocks as cb
    import numpy as np

    def quad(z, s=1.0, dx=0.0):
        return [[dx, 0, z], [dx + 2 * s, 0.3, z], [dx + 2.2 * s, 1.5 * s, z + 0.1], [dx - 0.2, 1.7 * s, z]]

    def face_edges():
        f = cb.Face(quad(0))
        f.add_edge(0, cb.Arc([1.0, -0.4, 0.1]))
        f.add_edge(1, cb.Origin([0.6, 0.8, 0.0]))
        # the axis of an angle arc is perpendicular to its chord (the end points are related by the rotation)
        chord = np.array(quad(0)[3]) - np.array(quad(0)[2])
        f.add_edge(2, cb.Angle(0.9, np.cross(chord, [0.3, 0.2, 1.0]) * 1.7))
        f.add_edge(3, cb.Spline([[-0.3, 1.2, 0.05], [-0.35, 0.6, 0.1]]))
        return f

    def loft_edges():
        top = cb.Face(quad(2, 0.8, 0.2))
        top.add_edge(1, cb.PolyLine([[2.0, 0.6, 2.1], [2.1, 1.0, 2.2]]))
        loft = cb.Loft(face_edges(), top)
        loft.add_side_edge(0, cb.Arc([-0.3, -0.2, 1.0]))
        loft.add_side_edge(1, cb.Spline([[2.3, 0.3, 0.6], [2.2, 0.35, 1.3]]))
        chord = np.array(quad(2, 0.8, 0.2)[2]) - np.array(quad(0)[2])
        loft.add_side_edge(2, cb.Angle(0.6, np.cross(chord, [1.0, -0.5, 0.2]) * 0.6))
        loft.add_side_edge(3, cb.Project("geo"))
        return loft

    def oncurve_loft():
        curve = cb.LinearInterpolatedCurve([[0, 0, 0], [0.3, -0.3, 0.7], [-0.2, 0.1, 1.4], [0.2, 0.0, 2.0]])
        loft = cb.Loft(cb.Face(quad(0)), cb.Face([[0.2, 0.0, 2.0], [2, 0.3, 2], [2.2, 1.5, 2.1], [-0.2, 1.7, 2]]))
        loft.add_side_edge(0, cb.OnCurve(curve, n_points=4))
        return loft

    def sketch_updated():
        # a sketch whose points were put in place by update() from an array (what the sketch optimizer does at the end)
        good = np.array([[0.5, 0.25, 0.1], [1.5, 0.3, 0.1], [2.6, 0.2, 0.2], [0.4, 1.2, 0.1], [1.6, 1.3, 0.2], [2.5, 1.25, 0.3],
                         [0.45, 2.2, 0.1], [1.5, 2.3, 0.2], [2.55, 2.1, 0.3]], dtype=float)
        quads = [[0, 1, 4, 3], [1, 2, 5, 4], [3, 4, 7, 6], [4, 5, 8, 7]]
        sketch = cb.MappedSketch(good[::-1] * 0.5 + 3.0, quads)
        sketch.update(good)
        return sketch

    def face_updated():
        face = face_edges()
        pts = np.array(quad(0), dtype=float)
        face.translate([3.0, -2.0, 1.0])
        face.update(pts)
        return face

    return {
        "sketch_updated": sketch_updated,
        "face_updated": face_updated,
        "point": lambda: cb.Face(quad(0)).points[2],
        "face_edges": face_edges,
        "loft_edges": loft_edges,
        "oncurve_loft": oncurve_loft,
        "box": lambda: cb.Box([0.5, -1, 0.2], [2, 1, 1.5]),
        "extrude": lambda: cb.Extrude(face_edges(), [0.3, 0.2, 1.5]),
        "revolve": lambda: cb.Revolve(cb.Face(quad(0, 0.5, 1.0)), 0.8, [0.1, 1.0, 0.0], [-1.0, 0.0, 0.2]),
        "revolved_shape": lambda: cb.RevolvedShape(cb.Grid([1.0, 0.2, 0.0], [2.2, 1.1, 0.0], 2, 1), 0.7, [0.1, 1.0, 0.05], [-0.5, 0.0, 0.3]),
        "transformed_stack3": lambda: cb.RevolvedStack(cb.Grid([1, 0, 0], [2, 1, 0], 1, 1), 1.2, [0, 1, 0.1], [0.2, 0, 0], 3),
        "wedge": lambda: cb.Wedge(cb.Face([[0, 0.5, 0], [1, 0.5, 0], [1, 1, 0], [0, 1, 0]])),
        "grid_shape": lambda: cb.ExtrudedShape(cb.Grid([0, 0, 0], [2, 1, 0], 2, 2), 1.5),
        "cylinder": lambda: cb.Cylinder([0.5, 0.2, 0.1], [0.5, 0.2, 2.1], [1.5, 0.2, 0.1]),
        "frustum": lambda: cb.Frustum([0, 0, 0], [0, 0, 2], [1, 0, 0], 0.4, 0.8),
        "elbow": lambda: cb.Elbow([0, 0, 0], [1, 0, 0], [0, 0, 1], 1.1, [3, 0, 0], [0, 1, 0], 0.7),
        "extruded_ring": lambda: cb.ExtrudedRing([0.1, 0.2, 0], [0.1, 0.2, 1.5], [2.1, 0.2, 0], 0.9, 6),
        "revolved_ring": lambda: cb.RevolvedRing([0, 0, 0], [2, 0.5, 0.3], cb.Face([[0.2, 1.0, 0.1], [1.2, 1.1, 0.2], [1.1, 1.8, 0.3], [0.3, 1.6, 0.2]]), 5),
        "hemisphere": lambda: cb.Hemisphere([0.3, 0.1, 0.2], [1.3, 0.1, 0.2], [0, 0, 1]),
        "extruded_stack": lambda: cb.ExtrudedStack(cb.Grid([0, 0, 0], [2, 1, 0], 2, 1), 2.0, 2),
        "revolved_stack": lambda: cb.RevolvedStack(cb.Grid([1, 0, 0], [2, 1, 0], 1, 2), 0.9, [0, 1, 0], [0, 0, 0], 2),
        "ljoint": lambda: cb.LJoint([0, 0, 0], [2, 0, 0], [0, 0.4, 0]),
        "curve_discrete": lambda: cb.DiscreteCurve([[0, 0, 0], [1, 0.2, 0.1], [1.5, 1.0, 0.4], [1.4, 2.0, 1.0]]),
        "curve_linear": lambda: cb.LinearInterpolatedCurve([[0, 0, 0], [1, 0.2, 0.1], [1.5, 1.0, 0.4], [1.4, 2.0, 1.0]]),
        "curve_spline": lambda: cb.SplineInterpolatedCurve([[0, 0, 0], [1, 0.2, 0.1], [1.5, 1.0, 0.4], [1.4, 2.0, 1.0], [0.8, 2.5, 1.2]]),
        "curve_line": lambda: cb.LineCurve([0.2, 0.1, 0.0], [1.5, 1.0, 0.7]),
        "curve_circle": lambda: cb.CircleCurve([0.5, 0.5, 0.2], [1.5, 0.5, 0.2], [0.0, 0.0, 2.0], (0.0, 4.0)),
    }


MESHABLE = {"revolved_shape", "transformed_stack3", "loft_edges", "oncurve_loft", "box", "extrude", "revolve", "wedge", "grid_shape", "cylinder", "frustum", "elbow",
            "extruded_ring", "revolved_ring", "hemisphere", "extruded_stack", "revolved_stack", "ljoint"}


def snapshot(kind: str, entity) -> dict:
    """output geometry: points and edges [(kind, end a, end b, data points, length)]"""
    import classy_blocks as cb
    import numpy as np
    from classy_blocks.items.edges.factory import factory
    from classy_blocks.items.vertex import Vertex

    def edge_rec(edge):
        k = edge.kind
        a, b = list(edge.vertex_1.position), list(edge.vertex_2.position)
        if k in ("arc", "origin", "angle"):
            data = [list(edge.third_point.position)]
        elif k in ("spline", "polyLine", "curve"):
            data = [list(p) for p in edge.point_array]
        else:
            data = []
        return {"kind": k, "a": a, "b": b, "data": data, "length": float(edge.length)}

    if kind == "point":
        return {"points": [list(entity.position)], "edges": []}
    if kind == "sketch_updated":
        return {"points": [list(p) for face in entity.faces for p in face.point_array], "edges": []}
    if kind in ("face_edges", "face_updated"):
        pts = [list(p) for p in entity.point_array]
        edges = []
        for i in range(4):
            if entity.edges[i].kind != "line":
                edges.append(edge_rec(factory.create(Vertex(pts[i], i), Vertex(pts[(i + 1) % 4], (i + 1) % 4), entity.edges[i])))
        return {"points": pts, "edges": edges}
    if kind.startswith("curve_"):
        b0, b1 = entity.bounds
        ts = [b0 + (b1 - b0) * k / 6 for k in range(7)] if kind != "curve_discrete" else list(range(int(b0), int(b1) + 1))
        return {"points": [list(entity.get_point(t)) for t in ts], "edges": [], "length": float(entity.length)}
    mesh = cb.Mesh()
    mesh.add(entity)
    mesh.assemble()
    return {"points": [list(v.position) for v in mesh.vertices], "edges": [edge_rec(e) for e in mesh.edge_list.edges]}


def compare(ctx: Ctx, sig: str, what: str, got: dict, want: dict, ts: List[dict], ratio: float, size: float, replay) -> None:
    tol = 1e-6 * size * abs(ratio)

    def match_points(a: List[List[float]], b: List[List[float]]) -> bool:
        if len(a) != len(b):
            return False
        left = list(b)
        for p in a:
            j = min(range(len(left)), key=lambda i: vdist(left[i], p))
            if vdist(left[j], p) > tol:
                return False
            left.pop(j)
        return True

    want_pts = [apply_all(ts, p) for p in want["points"]]
    if not match_points(got["points"], want_pts):
        ctx.violation(f"{sig}:points", f"{what}: points differ from the image of the untransformed entity's points", replay)
        return
    if "length" in want and abs(got["length"] - abs(ratio) * want["length"]) > 2e-4 * abs(ratio) * want["length"]:
        ctx.violation(f"{sig}:length", f"{what}: curve length {got['length']} is not |ratio| times {want['length']}", replay)
    if len(got["edges"]) != len(want["edges"]):
        ctx.violation(f"{sig}:edge-count", f"{what}: {len(got['edges'])} curved edges instead of {len(want['edges'])}", replay)
        return
    left = list(got["edges"])
    for e in want["edges"]:
        a, b = apply_all(ts, e["a"]), apply_all(ts, e["b"])
        cand = [g for g in left if g["kind"] == e["kind"] and ((vdist(g["a"], a) <= tol and vdist(g["b"], b) <= tol) or (vdist(g["a"], b) <= tol and vdist(g["b"], a) <= tol))]
        if not cand:
            ctx.violation(f"{sig}:edge-missing:{e['kind']}", f"{what}: no {e['kind']} edge between the images of its end points", replay)
            continue
        g = cand[0]
        left.remove(g)
        data = [apply_all(ts, p) for p in e["data"]]
        same_dir = vdist(g["a"], a) <= tol
        gd = g["data"] if same_dir else g["data"][::-1]
        if len(gd) != len(data) or any(vdist(x, y) > 10 * tol for x, y in zip(gd, data)):
            ctx.violation(f"{sig}:edge-shape:{e['kind']}", f"{what}: {e['kind']} edge is not the image of the original edge", replay)
        elif abs(g["length"] - abs(ratio) * e["length"]) > 1e-5 * abs(ratio) * max(e["length"], size):
            ctx.violation(f"{sig}:edge-length:{e['kind']}", f"{what}: {e['kind']} edge length {g['length']} instead of {abs(ratio) * e['length']}", replay)


def run(ctx: Ctx) -> None:
    import numpy as np

    ctx.rule = ("programs = (entity kind x composition of <= 3 lattice maps of Xform.tla x call style); output geometry of the "
                "transformed entity vs exact image of the original's; non-trivial = composition contains a rotation, scaling or "
                "mirror with a non-zero origin; distinct by (entity, map indexes, style)")
    consts = {"MaxLen": "2" if ctx.tier == "quick" else "3"}
    res = run_tlc("Xform", "xform.cfg", cfg_text=cfg_text("Spec", consts, ["Similarity"], constraints=["Emit"]), workers=1, timeout=900)
    ctx.add_tlc(res)
    progs = [r for r in res.records if "idx" in r]
    if len(progs) < 50:
        raise MachineryError("Xform.tla emitted too few compositions")
    # the harness' float maps are the specification's maps
    for pr in progs:
        for p, img, vimg in zip(pr["probes"], pr["images"], pr["vimages"]):
            if vdist(apply_all(pr["ts"], [float(x) for x in p]), img) > 1e-9 or vdist(apply_all(pr["ts"], [float(x) for x in p], linear=True), vimg) > 1e-9:
                raise MachineryError(f"harness map differs from Xform.tla for {pr['idx']}")
    rng = random.Random(ctx.seed + 9)
    build = builders()
    kinds = sorted(build)
    per_kind = 6 if ctx.tier == "quick" else 40
    for kind in kinds:
        try:
            base = snapshot(kind, build[kind]())
        except Exception as err:  # pylint: disable=broad-except
            raise MachineryError(f"cannot snapshot untransformed {kind}: {err}") from err
        size = max(vdist(p, base["points"][0]) for p in base["points"]) or 1.0
        # stratified by the number of mirrors in the composition (orientation flips an even/odd number of times) and by
        # style, so that every entity meets 0, 1, 2 and 3 mirrors as a list and as method calls
        chosen = rng.sample(progs, per_kind)
        styles = [rng.choice(["methods", "list"]) for _ in chosen]
        for nm in (1, 2, 3):
            group = [pr for pr in progs if sum(1 for t in pr["ts"] if t["kind"] == "mirror") == nm]
            if group:
                for style in ("list", "methods") if (nm == 2 or ctx.tier == "thorough") else (rng.choice(["list", "methods"]),):
                    chosen.append(rng.choice(group))
                    styles.append(style)
        for pr, style in zip(chosen, styles):
            sig = f"transform:{kind}:{'+'.join(sorted({t['kind'] for t in pr['ts']}))}"
            replay = {"entity": kind, "maps": pr["idx"], "style": style}
            ctx.evaluated(f"{kind}:{pr['idx']}:{style}")
            try:
                fresh = build[kind]()
                used_before = rng.random() < 0.4
                if used_before:
                    # the entity was looked at (assembled in a mesh of its own) before it is transformed: nothing computed
                    # for that first use may stick to it
                    snapshot(kind, fresh)
                ent = transform_entity(fresh, pr["ts"], style)
                got = snapshot(kind, ent)
            except Exception as err:  # pylint: disable=broad-except
                ctx.violation(f"{sig}:raises:{type(err).__name__}", f"transforming {kind} by {pr['idx']} ({style}) raised {err}", replay)
                continue
            ctx.validated()
            compare(ctx, sig, f"{kind} under maps {pr['idx']} ({style})", got, base, pr["ts"], pr["ratio"], size, replay)
        # copy(): equivalent and independent
        try:
            orig = build[kind]()
            cp = orig.copy()
            s_cp = snapshot(kind, cp)
            transform_entity(orig, chosen[0]["ts"], "methods")
            orig.translate([0.7 * size, -0.4 * size, 0.3 * size])      # (whatever the maps were: the original IS elsewhere now)
            snapshot(kind, orig)            # (the transformed original is used first, the copy afterwards)
            s_cp_after = snapshot(kind, cp)
            ident: List[dict] = []
            compare(ctx, f"copy:{kind}:equivalent", f"copy of {kind}", s_cp, base, ident, 1.0, size, {"entity": kind})
            compare(ctx, f"copy:{kind}:independent", f"copy of {kind} after the original was transformed", s_cp_after, base, ident, 1.0, size, {"entity": kind})
            ctx.evaluated(f"copy:{kind}")
        except Exception as err:  # pylint: disable=broad-except
            ctx.violation(f"copy:{kind}:raises:{type(err).__name__}", f"copy of {kind} raised {err}", {"entity": kind})
    # Operation.invert() (what Operation.mirror() uses to stay right side out): the same points and the same drawn edges
    for kind in ("loft_edges", "oncurve_loft", "box", "extrude", "revolve", "wedge"):
        base = snapshot(kind, build[kind]())
        size = max(vdist(p, base["points"][0]) for p in base["points"]) or 1.0
        for times in (1, 2):
            try:
                ent = build[kind]()
                if times == 2:
                    snapshot(kind, ent)     # used once (assembled) before it is inverted
                for _ in range(times):
                    ent.invert()
                    got = snapshot(kind, ent)
            except Exception as err:  # pylint: disable=broad-except
                ctx.violation(f"invert:{kind}:raises:{type(err).__name__}", f"inverting {kind} raised {err}", {"entity": kind})
                continue
            ctx.evaluated(f"invert:{kind}:{times}")
            compare(ctx, f"invert:{kind}:x{times}", f"{kind} inverted {times} time(s)", got, base, [], 1.0, size, {"entity": kind, "times": times})
    # a copied hemisphere must still be writable with its geometry defined
    hemisphere_copy(ctx)
    # helpers must not modify their arguments
    from classy_blocks.util import functions as f
    from classy_blocks.construct.point import Point
    for name, fn in (("functions.rotate", lambda p, a, o: f.rotate(p, 0.7, a, o)), ("functions.scale", lambda p, a, o: f.scale(p, 2.0, o)),
                     ("functions.mirror", lambda p, a, o: f.mirror(p, a, o)), ("Point.rotate", lambda p, a, o: Point(p).rotate(0.7, a, o)),
                     ("Point.mirror", lambda p, a, o: Point(p).mirror(a, o)), ("Point.scale", lambda p, a, o: Point(p).scale(2.0, o)),
                     ("Point.translate", lambda p, a, o: Point(p).translate(a))):
        p, a, o = np.array([1.0, 2.0, 3.0]), np.array([0.3, -1.0, 2.0]), np.array([0.5, 0.25, -1.0])
        keep = (p.copy(), a.copy(), o.copy())
        try:
            fn(p, a, o)
        except Exception as err:  # pylint: disable=broad-except
            ctx.violation(f"helper:{name}:raises", str(err), {"helper": name})
            continue
        ctx.evaluated(f"helper:{name}")
        if not (np.array_equal(p, keep[0]) and np.array_equal(a, keep[1]) and np.array_equal(o, keep[2])):
            ctx.violation(f"helper:{name}:modifies-argument", f"{name} modified an array passed to it", {"helper": name})
    constructor_inputs(ctx)
    ctx.sample({"entity": kinds[0], "maps": progs[0]["idx"], "images": progs[0]["images"][:2]})
    ctx.exhaustive = False


def constructor_inputs(ctx: Ctx) -> None:
    """Arrays handed to constructors are the caller's: transforming the entity built from them (translation first - the one
    map the library applies in place) changes neither the array nor a second entity built from the same array."""
    import classy_blocks as cb
    import numpy as np

    def pts(e):
        if hasattr(e, "faces"):
            return np.array([f.point_array for f in e.faces]).reshape((-1, 3))
        if hasattr(e, "curve"):
            return np.array(e.curve.discretize())
        if hasattr(e, "discretize"):
            return np.array(e.discretize())
        if hasattr(e, "point_array"):
            return np.array(e.point_array)
        if hasattr(e, "point"):
            return np.array(e.point.position)
        if hasattr(e, "origin"):
            return np.array(e.origin.position)
        if hasattr(e, "axis"):
            return np.array(e.axis.components if hasattr(e.axis, "components") else e.axis)
        return np.array(e.position)

    def updated_face(a):
        face = cb.Face(a[:4] + 1.0)
        face.update(a[:4])
        return face

    def updated_sketch(a):
        sketch = cb.MappedSketch(a + 1.0, [[0, 1, 2, 3], [0, 3, 4, 5]])
        sketch.update(a)
        return sketch

    makers = {
        "Face.update": updated_face, "MappedSketch.update": updated_sketch,
        "Spline": lambda a: cb.Spline(a), "PolyLine": lambda a: cb.PolyLine(a),
        "DiscreteCurve": lambda a: cb.DiscreteCurve(a), "LinearInterpolatedCurve": lambda a: cb.LinearInterpolatedCurve(a),
        "SplineInterpolatedCurve": lambda a: cb.SplineInterpolatedCurve(a), "Face": lambda a: cb.Face(a[:4]),
        "Arc": lambda a: cb.Arc(a[0]), "Origin": lambda a: cb.Origin(a[0]), "Angle": lambda a: cb.Angle(0.5, a[0]),
        "Loft": lambda a: cb.Loft(cb.Face(a[:4]), cb.Face(a[:4] + np.array([0.0, 0.0, 1.5]))),
    }
    for name, make in makers.items():
        arr = np.array([[0.5, 0.25, 0.0], [2.0, 0.5, 0.25], [2.25, 1.75, 0.5], [0.25, 1.5, 0.75], [-0.5, 0.75, 1.0], [-0.75, 0.25, 0.5]], dtype=float)
        keep = arr.copy()
        try:
            first, second = make(arr), make(arr)
            before = pts(second).copy()
            first.translate([0.3, -0.7, 1.1])
            moved_second = not np.allclose(pts(second), before, rtol=0, atol=1e-12)
            first.rotate(0.4, [0.2, 1.0, -0.5], [1.0, 2.0, 3.0])
            first.scale(1.7, [0.5, 0.5, 0.5])
            first.mirror([1.0, 0.3, 0.2], [0.1, 0.2, 0.3])
        except Exception as err:  # pylint: disable=broad-except
            ctx.violation(f"constructor-input:{name}:raises:{type(err).__name__}", f"{name} built from an array and transformed raised {err}", {"entity": name})
            continue
        ctx.evaluated(f"constructor-input:{name}")
        if not np.array_equal(arr, keep):
            ctx.violation(f"constructor-input:{name}:array-modified", f"transforming a {name} modified the array it was built from", {"entity": name})
        elif moved_second:
            ctx.violation(f"constructor-input:{name}:second-entity-moved", f"translating a {name} moved another {name} built from the same array", {"entity": name})


def hemisphere_copy(ctx: Ctx) -> None:
    import os
    import classy_blocks as cb
    from .. import bmd

    try:
        h = cb.Hemisphere([0, 0, 0], [1, 0, 0], [0, 0, 1])
        c = h.copy().translate([3, 0, 0])
        for s in (h, c):
            s.chop_axial(count=3)
            s.chop_radial(count=3)
            s.chop_tangential(count=3)
        mesh = cb.Mesh()
        mesh.add(h)
        mesh.add(c)
        path = os.path.join(ctx.tmp, "hemi.bmd")
        mesh.write(path)
        with open(path, encoding="utf-8") as f:
            parsed = bmd.parse_blockmeshdict(f.read())
    except Exception as err:  # pylint: disable=broad-except
        ctx.violation(f"copy:hemisphere:write-raises:{type(err).__name__}", f"a mesh of a hemisphere and its translated copy could not be written: {err}", {})
        return
    ctx.evaluated("copy:hemisphere:geometry")
    used = {q["label"] for q in parsed["faces"]} | {l for e in parsed["edges"] if e["kind"] == "project" for l in e["data"]}
    undefined = used - set(parsed["geometry"])
    if undefined:
        ctx.violation("copy:hemisphere:undefined-geometry", f"the written dictionary projects to {len(undefined)} geometry label(s) that are not defined", {})
