"""C08 - alternative arc specifications equal the analytic circle.

Arc.tla enumerates exact arcs: lattice points on circles x2+y2=R2 in integer orthogonal frames, triples
(P1, M, P2) with M the exact mid point of an arc from P1 to P2, the integer dot/cross products that fix the
included angle, and TLC checks the mid-point/reflection identities.  The harness maps every instance by a random
similarity (radii over three decades, arbitrary orientation - its own quaternion code) and evaluates
AngleEdge / OriginEdge / ArcEdge third points and lengths and arc_length_3point against M and R*theta.
"""

from __future__ import annotations

import math
import random
from typing import List

from ..common import Ctx, MachineryError
from ..renderlib import vadd, vcross, vdist, vdot, vmul, vnorm, vsub
from ..tlc import run_tlc
from .grading import cfg_text
from .grading_judge import _rand_frame


def similarity(rng: random.Random):
    rot, org = _rand_frame(rng)
    scale = 10 ** rng.uniform(-1.5, 1.5)

    def point(p):
        return [org[i] + scale * sum(rot[i][j] * p[j] for j in range(3)) for i in range(3)]

    def vector(v):
        return [sum(rot[i][j] * v[j] for j in range(3)) for i in range(3)]

    return point, vector, scale


def make_edge(p1, p2, data):
    from classy_blocks.items.edges.factory import factory
    from classy_blocks.items.vertex import Vertex

    return factory.create(Vertex(p1, 0), Vertex(p2, 1), data)


def evaluate(ctx: Ctx, inst: dict, rng: random.Random) -> None:
    import classy_blocks as cb
    import numpy as np
    from classy_blocks.util import functions as f

    point, vector, scale = similarity(rng)
    R = inst["R"] * inst["flen"] * scale
    inst = dict(inst, p2=[c + x / inst["den"] for c, x in zip(inst["centre"], inst["p2lin"])])
    p1, p2, m, mopp, centre = (point(inst[k]) for k in ("p1", "p2", "m", "mopp", "centre"))
    s = 1 if inst["hc"] > 0 else -1
    theta = 2 * math.atan2(abs(inst["hc"]), inst["hd"])
    axis = vmul(vector(inst["axis"]), s * rng.uniform(0.5, 3.0))     # non-unit on purpose
    cls = "minor" if inst["minor"] else ("semi" if inst["hd"] == 0 else "reflex")
    tol = 1e-7 * R
    base = {"instance": {k: inst[k] for k in ("R", "flen", "centre", "plane", "hd", "hc")}, "scale": scale}

    def check_point(tag, got, want):
        ctx.evaluated(f"{tag}:{inst['plane']}:{inst['flen']}")
        if got is None:
            return
        if vdist(got, want) > tol:
            ctx.violation(f"third-point:{tag}:{cls}", f"{tag} arc {cls}: third point {vdist(got, want) / R:.3g} R away from the exact mid point",
                          dict(base, tag=tag, got=list(map(float, got)), want=want))

    def check_len(tag, got, want):
        if got is None:
            return
        if abs(got - want) > 1e-7 * max(want, R):
            ctx.violation(f"length:{tag}:{cls}", f"{tag} arc {cls}: length {got} instead of R*theta = {want}", dict(base, tag=tag, got=float(got), want=want))
        chord = vdist(p1, p2)
        if got < chord * (1 - 1e-9):
            ctx.violation(f"chord-bound:{tag}:{cls}", f"{tag} arc {cls}: length {got} below the chord {chord}", dict(base, tag=tag))

    def safe(fn):
        try:
            return fn()
        except Exception as err:  # pylint: disable=broad-except
            ctx.violation(f"raises:{fn.__name__}:{cls}:{type(err).__name__}", f"{fn.__name__} raised {type(err).__name__}: {err}", base)
            return None

    # angle + axis, both signs
    for tag, ang, ax in (("angle", theta, axis), ("angle-negative", -theta, vmul(axis, -1.0))):
        def third():
            return make_edge(p1, p2, cb.Angle(ang, ax)).third_point.position

        def length():
            return make_edge(p1, p2, cb.Angle(ang, ax)).length
        third.__name__, length.__name__ = f"{tag}.third_point", f"{tag}.length"
        check_point(tag, safe(third), m)
        check_len(tag, safe(length), R * theta)
    # origin: always the minor arc about the given centre
    if inst["hd"] != 0:
        want_m, want_t = (m, theta) if inst["minor"] else (mopp, 2 * math.pi - theta)

        def o_third():
            return make_edge(p1, p2, cb.Origin(centre)).third_point.position

        def o_length():
            return make_edge(p1, p2, cb.Origin(centre)).length
        check_point("origin", safe(o_third), want_m)
        check_len("origin", safe(o_length), R * want_t)
    # the same edge object after its vertices moved (optimizer, move_vertex): the arc follows the vertices. Both ends are
    # moved radially from the centre by a factor k, so the exact arc is the scaled one (mid point and length scale by k)
    k = rng.choice([0.5, 2.0, 3.0])
    grow = lambda p: vadd(centre, vmul(vsub(p, centre), k))    # noqa: E731
    cases = [("angle", cb.Angle(theta, axis), m, theta)]
    if inst["hd"] != 0:
        cases.append(("origin", cb.Origin(centre), (m if inst["minor"] else mopp), (theta if inst["minor"] else 2 * math.pi - theta)))
    for tag, data, mid, ang in cases:
        def moved():
            edge = make_edge(p1, p2, data)
            first = (list(edge.third_point.position), float(edge.length))      # queried once before the move
            edge.vertex_1.move_to(np.array(grow(p1)))
            edge.vertex_2.move_to(np.array(grow(p2)))
            return first, list(edge.third_point.position), float(edge.length)
        moved.__name__ = f"{tag}.after-move"
        out = safe(moved)
        ctx.evaluated()
        if out is not None:
            _, third2, len2 = out
            if vdist(third2, grow(mid)) > tol * max(1.0, k):
                ctx.violation(f"third-point:{tag}:after-move:{cls}", f"{tag} arc {cls}: after both vertices moved the arc point is "
                              f"{vdist(third2, grow(mid)) / R:.3g} R away from the exact mid point of the moved arc", dict(base, tag=tag, k=k))
            if abs(len2 - k * R * ang) > 1e-7 * max(k * R * ang, R):
                ctx.violation(f"length:{tag}:after-move:{cls}", f"{tag} arc {cls}: length {len2} after the move instead of {k * R * ang}", dict(base, tag=tag, k=k))
    # three-point arcs through other exact circle points
    others = inst["others"]
    others = [o for o in others if vdist(point(o["w"]), p2) > R / 50]       # (a third point next to an end point is ill-conditioned)
    for o in rng.sample(others, min(4, len(others))):
        pl, p1pl = o["pl"], inst["plane"]["p1"]
        phi = math.atan2(s * (p1pl[0] * pl[1] - p1pl[1] * pl[0]), p1pl[0] * pl[0] + p1pl[1] * pl[1]) % (2 * math.pi)
        want = R * theta if phi < theta else R * (2 * math.pi - theta)
        x = point(o["w"])

        def l3():
            return f.arc_length_3point(np.array(p1), np.array(x), np.array(p2))

        def larc():
            return make_edge(p1, p2, cb.Arc(x)).length
        l3.__name__, larc.__name__ = "arc_length_3point", "ArcEdge.length"
        side = "same-side" if phi < theta else "other-side"
        ctx.evaluated()
        for tag, fn in (("three-point", l3), ("arc-edge", larc)):
            got = safe(fn)
            if got is not None and abs(got - want) > 1e-7 * max(want, R):
                ctx.violation(f"length:{tag}:{cls}:{side}", f"{tag} length {got} instead of {want}", dict(base, tag=tag, x=x))
            if got is not None and got < vdist(p1, p2) * (1 - 1e-9):
                ctx.violation(f"chord-bound:{tag}:{cls}", f"{tag} length {got} below the chord", dict(base, tag=tag))


def chord_bound_other_kinds(ctx: Ctx, rng: random.Random, n: int) -> None:
    """every edge kind: length >= distance between its end points"""
    import classy_blocks as cb

    for _ in range(n):
        point, vector, scale = similarity(rng)
        p1, p2 = point([0, 0, 0]), point([rng.uniform(0.5, 2), rng.uniform(-1, 1), rng.uniform(-1, 1)])
        mids = sorted(rng.uniform(0.1, 0.9) for _ in range(3))
        pts = [vadd(vadd(p1, vmul(vsub(p2, p1), t)), vmul(vector([rng.uniform(-.3, .3) for _ in range(3)]), scale)) for t in mids]
        for kind, data in (("spline", cb.Spline(pts)), ("polyLine", cb.PolyLine(pts)), ("project", cb.Project("geo"))):
            ctx.evaluated()
            try:
                length = make_edge(p1, p2, data).length
            except Exception as err:  # pylint: disable=broad-except
                ctx.violation(f"raises:{kind}.length:{type(err).__name__}", f"{kind}.length raised {err}", {"p1": p1, "p2": p2})
                continue
            if length < vdist(p1, p2) * (1 - 1e-9):
                ctx.violation(f"chord-bound:{kind}", f"{kind} length {length} below the chord {vdist(p1, p2)}", {"p1": p1, "p2": p2, "pts": pts})


def run(ctx: Ctx) -> None:
    ctx.rule = ("instances = exact arcs (P1, M, P2) on lattice circles in integer frames enumerated by Arc.tla, each mapped by a "
                "random similarity; non-trivial = every instance (minor, semicircle and reflex arcs); distinct by (plane triple, frame)")
    consts = {"Radii": "{5, 325}" if ctx.tier == "quick" else "{5, 25, 325}", "WideRadii": "{325}", "FrameIdx": "{1, 2}" if ctx.tier == "quick" else "{1, 2, 3, 4}",
              "CentreIdx": "{2}" if ctx.tier == "quick" else "{1, 2, 3}"}
    res = run_tlc("Arc", "arc.cfg", cfg_text=cfg_text("Spec", consts, ["MidOK", "ReflectOK"], constraints=["Emit"]), workers=1, timeout=900)
    ctx.add_tlc(res)
    insts = res.records
    if len(insts) < 50:
        raise MachineryError("Arc.tla emitted too few instances")
    rng = random.Random(ctx.seed + 8)
    ctx.exhaustive = True
    if ctx.tier == "thorough" and len(insts) > 6000:
        insts = rng.sample(insts, 6000)
        ctx.exhaustive = False
    for inst in insts:
        evaluate(ctx, inst, rng)
        ctx.validated()
    ctx.sample({k: insts[0][k] for k in ("R", "flen", "centre", "plane", "hd", "hc", "minor")})
    chord_bound_other_kinds(ctx, rng, 50 if ctx.tier == "quick" else 500)
