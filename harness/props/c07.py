"""C07 - decided by Render.tla on recorded executions of generated programs (see render.py).

Besides the lattice programs (user edges on all 12 positions, faces used as given / inverted / shifted / re-oriented)
a second family of programs uses operations that CREATE their own direction-dependent side edges: a Revolve in
general position (four angle-and-axis arcs), optionally followed by operation-level steps (invert, copy, translate,
rotate, scale, mirror).  The abstract program lists the four swept arcs as user edges (bottom corner i -> top corner i,
the exact circle each corner travels on, computed with the harness' own Rodrigues rotation); the written file is
abstracted the same way as for lattice programs and judged by the same Render.tla clauses (present exactly once, on a
block edge, drawn on the side the user described).
"""

from __future__ import annotations

import json
import math
import os
import random
from typing import Dict, List

from .. import bmd
from ..common import Ctx
from ..renderlib import Geometry, abstract_file, vadd, vcross, vdot, vmul, vnorm, vsub, vunit
from .. import examples
from . import render

FOCUS = {"C05": ["vertices"], "C06": ["file", "addressing"], "C07": ["edges"], "C10": ["addressing", "edges"]}["C07"]


def run(ctx: Ctx) -> None:
    ctx.rule = ("programs = random abstract user scripts (lattice hexahedra with random corner numbering, patches, merges, "
                "projections, edges, face manipulations, deletions) and revolved operations in general position followed by "
                "operation-level steps; the written file is parsed and judged by TLC against "
                "Render.tla; non-trivial = more than one operation or any edge/projection; distinct by program content")
    n = 150 if ctx.tier == "quick" else 2500
    for focus in FOCUS:
        render.run_focus(ctx, "C07", focus, n // len(FOCUS))
    swept(ctx, 60 if ctx.tier == "quick" else 1500)
    shared_arrays(ctx, 12 if ctx.tier == "quick" else 200)
    examples.judge_examples(ctx, "C07")     # File.tla EdgesOnBlocks / EdgesOnce on the example scripts' dictionaries


# ---------------------------------------------------------------- own affine maps (independent of the library)
def rot(p, angle, axis, origin):
    k = vunit(axis)
    v = vsub(p, origin)
    c, s = math.cos(angle), math.sin(angle)
    r = vadd(vadd(vmul(v, c), vmul(vcross(k, v), s)), vmul(k, vdot(k, v) * (1 - c)))
    return vadd(origin, r)


def mir(p, normal, origin):
    n = vunit(normal)
    return vsub(p, vmul(n, 2 * vdot(vsub(p, origin), n)))


def scl(p, ratio, origin):
    return vadd(origin, vmul(vsub(p, origin), ratio))


class SweptGeometry(Geometry):
    """position ids -> coordinates; the data of edge id i is the arc its corner travels on"""

    def __init__(self, coords, thirds):
        super().__init__(coords)
        self.thirds = thirds

    def edge_data(self, op, e):
        return self.thirds[e["id"]]


STEPS = ["invert", "copy", "translate", "rotate", "scale", "mirror"]


def shared_arrays(ctx: Ctx, n: int) -> None:
    """Two lofts whose spline / polyLine side edge is given by THE SAME float numpy array; the second loft is then moved
    (translate first, the one map applied in place). Each edge is written with the data it was given: the first with the
    array as the user wrote it, the second with its image - judged by the Render.tla edge clauses."""
    import classy_blocks as cb
    import numpy as np

    rng = random.Random(ctx.seed * 17 + 3)
    recs, progs, geos = [], [], {}
    for i in range(n):
        size = 10 ** rng.uniform(-1, 1)
        base = [[0, 0, 0], [1.2, 0.1, 0], [1.3, 1.1, 0.1], [0.1, 0.9, 0], [0.1, 0, 1.5], [1.3, 0.2, 1.4], [1.2, 1.2, 1.6], [0, 1.0, 1.5]]
        shift = [rng.uniform(-3, 3) for _ in range(3)]
        A = [[(c + sh) * size for c, sh in zip(p, shift)] for p in base]
        corner = rng.randrange(4)
        kind = rng.choice(["spline", "polyLine"])
        pa, pb = A[corner], A[corner + 4]
        arr = np.array([[pa[j] + (pb[j] - pa[j]) * t + (0.25 * size if j == (corner % 2) else 0.0) * h for j in range(3)]
                        for t, h in ((0.3, 0.8), (0.6, 1.0), (0.85, 0.5))], dtype=float)
        given = arr.copy()
        d = [rng.choice([-1, 1]) * rng.uniform(4, 8) * size for _ in range(3)]
        steps = ["translate"] + [rng.choice(["rotate", "scale", "translate"]) for _ in range(rng.choice([0, 1]))]
        try:
            lofts = []
            for _k in range(2):
                loft = cb.Loft(cb.Face(A[:4]), cb.Face(A[4:]))
                loft.add_side_edge(corner, cb.Spline(arr) if kind == "spline" else cb.PolyLine(arr))
                for a in range(3):
                    loft.chop(a, count=2)
                lofts.append(loft)
            Bp, Bd = [list(p) for p in A], [list(p) for p in given]
            for st in steps:
                if st == "translate":
                    lofts[1].translate(d)
                    Bp, Bd = [vadd(p, d) for p in Bp], [vadd(p, d) for p in Bd]
                elif st == "rotate":
                    a_, ax, o = rng.uniform(-1, 1), [rng.uniform(-1, 1) for _ in range(3)], vadd(A[0], d)
                    lofts[1].rotate(a_, ax, o)
                    Bp, Bd = [rot(p, a_, ax, o) for p in Bp], [rot(p, a_, ax, o) for p in Bd]
                else:
                    k_, o = rng.choice([0.5, 1.5]), vadd(A[0], d)
                    lofts[1].scale(k_, o)
                    Bp, Bd = [scl(p, k_, o) for p in Bp], [scl(p, k_, o) for p in Bd]
            mesh = cb.Mesh()
            for loft in lofts:
                mesh.add(loft)
            path = os.path.join(ctx.tmp, "shared.bmd")
            if os.path.exists(path):
                os.remove(path)
            mesh.write(path)
            with open(path, encoding="utf-8") as f:
                parsed = bmd.parse_blockmeshdict(f.read())
        except Exception as err:  # pylint: disable=broad-except
            ctx.violation(f"shared-array:{kind}:raises:{type(err).__name__}", f"two lofts built from one array could not be written: {err}", {"steps": steps})
            continue
        ctx.evaluated(f"shared-array:{kind}:{steps}:{i}")
        if not np.array_equal(arr, given):
            ctx.violation(f"shared-array:{kind}:callers-array-modified", "moving an operation modified the array its edge was built from", {"steps": steps})
        coords = {c + 1: A[c] for c in range(8)}
        coords.update({c + 9: Bp[c] for c in range(8)})
        data = {1: {"points": [list(map(float, p)) for p in given]}, 2: {"points": Bd}}
        mk = lambda eid, c0: {"pa": c0 + corner, "pb": c0 + corner + 4, "where": ["side", corner], "kind": kind, "outkind": kind, "id": eid,   # noqa: E731
                              "labels": [], "degenerate": False, "directed": True}
        geo = SweptGeometry(coords, data)
        ops = []
        for k, loft in enumerate(lofts):
            ids = list(range(1 + 8 * k, 9 + 8 * k))
            e = [mk(k + 1, 1 + 8 * k)]

            def posid(p, coords=coords):
                return min(coords, key=lambda q: sum((coords[q][j] - p[j]) ** 2 for j in range(3)))
            ops.append({"pts0": ids, "pts": ids, "fsteps": {"bottom": [], "top": []}, "zone": "", "patch": [""] * 6, "sproj": [""] * 6,
                        "pproj": [[] for _ in range(8)], "deleted": False, "edges": e, "edges_tlc": e,
                        "get_face": [[posid(p.position) for p in loft.get_face(sd).points] for sd in render.SIDES]})
        prog = {"id": i + 1, "focus": "shared-array", "ops": ops, "merged": [], "dflt": [], "pkind": [], "psettings": [], "geom": [],
                "unique_face_labels": True, "builtin": False, "steps": steps, "kind": kind}
        af = abstract_file(parsed, prog, geo, tol=1e-6 * size)
        af.update({"vtk_checked": False, "vtk_points_match": True, "vtk_cells": []})
        rec = {k: prog[k] for k in ("id", "merged", "dflt", "pkind", "psettings", "geom", "unique_face_labels", "builtin")}
        rec["ops"] = [{k: o[k] for k in ("pts0", "pts", "fsteps", "zone", "patch", "sproj", "pproj", "deleted", "get_face", "edges", "edges_tlc")} for o in ops]
        rec["settings"] = [["scale", "1"]]
        rec["file"] = af
        recs.append(rec)
        progs.append(prog)
    if not recs:
        return
    verdicts = render.judge(ctx, recs)
    for prog, rec in zip(progs, recs):
        ctx.validated()
        for c in verdicts[prog["id"]]:
            if render.CLAUSE_PROP[c] != "C07" and c != "IndicesOK":
                continue
            ctx.violation(f"shared-array:{c}:{prog['kind']}", f"two lofts with one array for their {prog['kind']} edge, the second moved by {prog['steps']}: "
                          f"Render.tla clause {c} rejected the written file", {"steps": prog["steps"]})


def swept(ctx: Ctx, n: int) -> None:
    import classy_blocks as cb

    rng = random.Random(ctx.seed * 13 + 7)
    recs, progs, geos = [], [], {}
    for i in range(n):
        size = 10 ** rng.uniform(-1, 1.5)
        u = lambda a, b: rng.uniform(a, b) * size    # noqa: E731
        # a quadrangle in general position, well away from the axis
        base = [[u(1.0, 1.4), u(-0.2, 0.2), u(0.0, 0.3)], [u(2.0, 2.6), u(-0.2, 0.2), u(0.1, 0.4)],
                [u(2.1, 2.7), u(-0.2, 0.2), u(1.2, 1.6)], [u(0.9, 1.3), u(-0.2, 0.2), u(1.0, 1.5)]]
        shift = [u(-3, 3) for _ in range(3)]
        face_pts = [vadd(p, shift) for p in base]
        axis = [rng.uniform(-0.15, 0.15), rng.uniform(-0.15, 0.15), rng.choice([-1, 1]) * rng.uniform(0.4, 3.0)]   # non-unit
        origin = vadd([u(-0.4, 0.4), u(-0.4, 0.4), u(-1, 1)], shift)
        # one in four revolves sweeps more than half a turn (its side arcs are reflex; inverted or mirrored, negative and reflex)
        theta = rng.uniform(0.3, 2.6) if rng.random() < 0.75 else rng.uniform(3.4, 5.2)
        steps = [rng.choice(STEPS) for _ in range(rng.choice([0, 1, 1, 2, 3]))]
        B = [list(p) for p in face_pts]
        T = [rot(p, theta, axis, origin) for p in face_pts]
        M = [rot(p, theta / 2, axis, origin) for p in face_pts]
        key = {"theta": round(theta, 3), "steps": steps, "shape": i % 3 == 2}
        try:
            # every third program reaches the same machinery through RevolvedShape (a one-quad sketch revolved): the steps are
            # then taken on the SHAPE, whose operation carries the side edges the shape made for it
            use_shape = i % 3 == 2
            if use_shape:
                shape = cb.RevolvedShape(cb.MappedSketch(face_pts, [[0, 1, 2, 3]]), theta, axis, origin)
                op = shape.operations[0]
            else:
                op = cb.Revolve(cb.Face(face_pts), theta, axis, origin)
            for st in steps:
                whole = shape if use_shape else op
                if st == "invert":
                    op.invert()
                    B, T = T, B
                elif st == "copy":
                    if use_shape:
                        shape = shape.copy()
                        op = shape.operations[0]
                    else:
                        op = op.copy()
                elif st == "translate":
                    d = [u(-2, 2) for _ in range(3)]
                    whole.translate(d)
                    B, T, M = ([vadd(p, d) for p in X] for X in (B, T, M))
                elif st == "rotate":
                    a, ax, o = rng.uniform(-2.5, 2.5), [rng.uniform(-1, 1) for _ in range(3)], [u(-1, 1) for _ in range(3)]
                    whole.rotate(a, ax, o)
                    B, T, M = ([rot(p, a, ax, o) for p in X] for X in (B, T, M))
                elif st == "scale":
                    r, o = rng.choice([0.5, 1.7, 3.0]), [u(-1, 1) for _ in range(3)]
                    whole.scale(r, o)
                    B, T, M = ([scl(p, r, o) for p in X] for X in (B, T, M))
                else:
                    nrm, o = [rng.uniform(-1, 1) for _ in range(3)], [u(-1, 1) for _ in range(3)]
                    whole.mirror(nrm, o)
                    B, T, M = ([mir(p, nrm, o) for p in X] for X in (B, T, M))
                    B, T = T, B        # Operation.mirror swaps the faces so that the block stays right side out
            for a in range(3):
                op.chop(a, count=2)
            mesh = cb.Mesh()
            mesh.add(shape if use_shape else op)
            path = os.path.join(ctx.tmp, "swept.bmd")
            if os.path.exists(path):
                os.remove(path)
            mesh.write(path)
            with open(path, encoding="utf-8") as f:
                parsed = bmd.parse_blockmeshdict(f.read())
        except Exception as err:  # pylint: disable=broad-except
            ctx.violation(f"swept-fails:{'+'.join(sorted(set(steps))) or 'as-created'}:{type(err).__name__}",
                          f"a Revolve followed by {steps} could not be written: {err}", {"case": key})
            continue
        ctx.evaluated(json.dumps(key, sort_keys=True))
        coords = {c + 1: B[c] for c in range(4)}
        coords.update({c + 5: T[c] for c in range(4)})
        thirds = {}
        edges = []
        for c in range(4):
            chord_mid = vmul(vadd(B[c], T[c]), 0.5)
            thirds[c + 1] = {"third_fwd": M[c], "third_rev": vsub(vmul(chord_mid, 2), M[c])}
            edges.append({"pa": c + 1, "pb": c + 5, "where": ["side", c], "kind": "angle", "outkind": "arc", "id": c + 1,
                          "labels": [], "degenerate": False, "directed": True})
        geo = SweptGeometry(coords, thirds)

        def posid(p, coords=coords, size=size):
            return min(coords, key=lambda k: sum((coords[k][j] - p[j]) ** 2 for j in range(3)))
        o = {"pts0": list(range(1, 9)), "pts": list(range(1, 9)), "fsteps": {"bottom": [], "top": []}, "zone": "", "patch": [""] * 6,
             "sproj": [""] * 6, "pproj": [[] for _ in range(8)], "deleted": False, "edges": edges, "edges_tlc": edges,
             "get_face": [[posid(p.position) for p in op.get_face(sd).points] for sd in render.SIDES]}
        prog = {"id": i + 1, "focus": "swept", "ops": [o], "merged": [], "dflt": [], "pkind": [], "psettings": [], "geom": [],
                "unique_face_labels": True, "builtin": False, "steps": steps}
        af = abstract_file(parsed, prog, geo, tol=1e-6 * size)
        af.update({"vtk_checked": False, "vtk_points_match": True, "vtk_cells": []})
        rec = {k: prog[k] for k in ("id", "merged", "dflt", "pkind", "psettings", "geom", "unique_face_labels", "builtin")}
        rec["ops"] = [{k: o[k] for k in ("pts0", "pts", "fsteps", "zone", "patch", "sproj", "pproj", "deleted", "get_face", "edges", "edges_tlc")}]
        rec["settings"] = [["scale", "1"]]
        rec["file"] = af
        recs.append(rec)
        progs.append(prog)
        geos[prog["id"]] = geo
    if not recs:
        return
    verdicts = render.judge(ctx, recs)
    for prog, rec in zip(progs, recs):
        ctx.validated()
        for c in verdicts[prog["id"]]:
            if render.CLAUSE_PROP[c] != "C07" and c != "IndicesOK":
                continue
            tag = "+".join(sorted(set(prog["steps"]))) or "as-created"
            ctx.violation(f"swept:{c}:{tag}", f"Revolve followed by {prog['steps']}: Render.tla clause {c} rejected the written file",
                          {"steps": prog["steps"], "coords": {str(k): v for k, v in geos[prog['id']].coords.items()}, "file": rec["file"]})
