"""C19 - grid, slice and core/shell addressing of shapes and stacks is geometric.

Grid.tla states the addressing (grid[k][j][i] is the cell in column i, row j, tier k; a slice is exactly the
cells with that index) and TLC checks that slices partition the cells for all sizes up to 5x5x4.  The harness
builds extruded, revolved and transformed stacks on grids whose counts differ in every direction, in random
placement, finds for every addressed operation the cell it geometrically occupies (nearest exact cell centre,
mapped by the harness' own transform), deletes addressed operations and looks for the block missing from the
written file; round shapes and disk sketches are recorded as (in core, in shell, touches the outer surface)
per entity.  TLC (Grid.tla, JSpec) judges every record.
"""

from __future__ import annotations

import json
import math
import os
import random
from typing import List

from .. import bmd
from ..common import Ctx, MachineryError
from ..renderlib import vadd, vcross, vdist, vdot, vmul, vnorm, vsub
from ..tlc import run_tlc
from .grading_judge import _rand_frame


def rodrigues(p, axis, angle, origin):
    k = vmul(axis, 1.0 / vnorm(axis))
    v = vsub(p, origin)
    c, s = math.cos(angle), math.sin(angle)
    r = vadd(vadd(vmul(v, c), vmul(vcross(k, v), s)), vmul(k, vdot(k, v) * (1 - c)))
    return vadd(r, origin)


def stack_record(ctx: Ctx, rid: int, rng: random.Random, kind: str, dims) -> dict | None:
    import classy_blocks as cb
    import numpy as np

    nx, ny, nz = dims
    lx, ly = rng.uniform(1, 3) * nx, rng.uniform(1, 3) * ny
    x0, y0 = rng.uniform(-2, 2), rng.uniform(-2, 2)
    rot, org = _rand_frame(rng)
    # placement of the base sketch: rotate about an axis through a shifted origin, then translate (harness' own maths)
    ax = [rng.gauss(0, 1) for _ in range(3)]
    ang = rng.uniform(-3, 3)
    orig = [rng.uniform(-2, 2) for _ in range(3)]
    shift = [rng.uniform(-5, 5) for _ in range(3)]

    def place(p):
        return vadd(rodrigues(p, ax, ang, orig), shift)

    grid = cb.Grid([x0, y0, 0], [x0 + lx, y0 + ly, 0], nx, ny)
    grid.rotate(ang, ax, orig).translate(shift)
    normal = vsub(place([0, 0, 1]), place([0, 0, 0]))
    height = rng.uniform(1, 3) * nz
    try:
        if kind == "extruded":
            stack = cb.ExtrudedStack(grid, height, nz)

            def centre(i, j, k):
                return place([x0 + (i + 0.5) * lx / nx, y0 + (j + 0.5) * ly / ny, (k + 0.5) * height / nz])
        elif kind.startswith("extruded-"):
            # the overall extrusion given as a vector - oblique to the sketch - in any of the forms a vector is accepted in
            amount = vadd(vmul(normal, height), vsub(place([rng.uniform(-1, 1) * lx / nx, rng.uniform(-1, 1) * ly / ny, 0]), place([0, 0, 0])))
            form = kind.split("-")[1]
            stack = cb.ExtrudedStack(grid, {"list": list(amount), "tuple": tuple(amount), "array": np.array(amount)}[form], nz)

            def centre(i, j, k):
                return vadd(place([x0 + (i + 0.5) * lx / nx, y0 + (j + 0.5) * ly / ny, 0]), vmul(amount, (k + 0.5) / nz))
        elif kind == "transformed":
            stack = cb.TransformedStack(grid, [cb.Translation(vmul(normal, height / nz))], nz)

            def centre(i, j, k):
                return place([x0 + (i + 0.5) * lx / nx, y0 + (j + 0.5) * ly / ny, (k + 0.5) * height / nz])
        elif kind == "transformed-scaled":
            # tiers that taper: every tier is the previous one moved on and scaled about ITS OWN centre (a Scaling without origin)
            q = rng.choice([0.8, 1.25])
            stack = cb.TransformedStack(grid, [cb.Translation(vmul(normal, height / nz)), cb.Scaling(q)], nz)

            def centre(i, j, k, q=q):
                c0 = place([x0 + lx / 2, y0 + ly / 2, 0])
                m = vsub(place([x0 + (i + 0.5) * lx / nx, y0 + (j + 0.5) * ly / ny, 0]), c0)
                lo = vadd(vadd(c0, vmul(normal, k * height / nz)), vmul(m, q ** k))
                hi = vadd(vadd(c0, vmul(normal, (k + 1) * height / nz)), vmul(m, q ** (k + 1)))
                return vmul(vadd(lo, hi), 0.5)
        else:
            # revolve about an axis in the sketch plane, well outside the sketch
            a_dir = vsub(place([0, 1, 0]), place([0, 0, 0]))
            a_org = place([x0 - 3 * lx, 0, 0])
            total = rng.uniform(0.3, 1.2)
            stack = cb.RevolvedStack(grid, total, a_dir, a_org, nz)

            def centre(i, j, k):
                # exact: mean of the eight corners (four base corners turned by k and k+1 tier angles)
                acc = [0.0, 0.0, 0.0]
                for di in (0, 1):
                    for dj in (0, 1):
                        q = place([x0 + (i + di) * lx / nx, y0 + (j + dj) * ly / ny, 0])
                        for kk in (k, k + 1):
                            acc = vadd(acc, rodrigues(q, a_dir, kk * total / nz, a_org))
                return vmul(acc, 1.0 / 8)
    except Exception as err:  # pylint: disable=broad-except
        ctx.violation(f"stack-raises:{kind}:{type(err).__name__}", str(err), {"dims": dims})
        return None
    cells = [(i, j, k) for i in range(nx) for j in range(ny) for k in range(nz)]
    centres = {c: centre(*c) for c in cells}

    def cell_of(op):
        c = list(op.center)
        return min(cells, key=lambda cc: vdist(centres[cc], c))

    # the operations are where the tiers of the stack are (not merely nearest to them)
    for op in stack.operations:
        off = vdist(list(op.center), centres[cell_of(op)])
        if off > 1e-6 * (lx + ly + height):
            ctx.violation(f"stack-geometry:{kind}", f"an operation of the {kind} stack is {off:.3g} away from the centre of every cell "
                          f"of the stack that was asked for", {"dims": dims})
            return None
    try:
        g = stack.grid
        grid_obs = [[[list(cell_of(g[k][j][i])) for i in range(nx)] for j in range(ny)] for k in range(nz)]
        slices = [[[list(cell_of(op)) for op in stack.get_slice(axis, n)] for n in range([nx, ny, nz][axis])] for axis in range(3)]
    except Exception as err:  # pylint: disable=broad-except
        ctx.violation(f"stack-addressing-raises:{kind}:{type(err).__name__}", str(err), {"dims": dims})
        return None
    ctx.evaluated(f"{kind}:{dims}")
    # delete an addressed operation and look for the missing block
    deleted = []
    for _ in range(2 if len(cells) > 1 else 0):
        i, j, k = rng.randrange(nx), rng.randrange(ny), rng.randrange(nz)
        mesh = cb.Mesh()
        for op in stack.operations:
            for a in range(3):
                op.unchop(a)
                op.chop(a, count=1)
        mesh.add(stack)
        mesh.delete(stack.grid[k][j][i])
        path = os.path.join(ctx.tmp, "c19.bmd")
        try:
            mesh.write(path)
            with open(path, encoding="utf-8") as f:
                parsed = bmd.parse_blockmeshdict(f.read())
        except Exception as err:  # pylint: disable=broad-except
            ctx.violation(f"stack-write-raises:{kind}:{type(err).__name__}", str(err), {"dims": dims})
            continue
        present = set()
        for blk in parsed["blocks"]:
            c = [sum(parsed["vertices"][v]["p"][d] for v in blk["v"]) / 8 for d in range(3)]
            present.add(min(cells, key=lambda cc: vdist(centres[cc], c)))
        missing = sorted(set(cells) - present)
        deleted.append({"addr": [i, j, k], "missing": [list(m) for m in missing]})
        ctx.evaluated()
    return {"id": rid, "kind": "stack", "stack": kind, "nx": nx, "ny": ny, "nz": nz, "grid": grid_obs, "slices": slices, "deleted": deleted,
            "entities": [], "rings": 2}


def round_record(ctx: Ctx, rid: int, rng: random.Random, kind: str) -> dict | None:
    import classy_blocks as cb

    rot, org = _rand_frame(rng)
    s = 10 ** rng.uniform(-1, 1)

    def P(p):
        return [org[i] + s * sum(rot[i][j] * p[j] for j in range(3)) for i in range(3)]

    def V(v):
        return [sum(rot[i][j] * v[j] for j in range(3)) for i in range(3)]

    try:
        sketch = None
        if kind == "cylinder":
            shape = cb.Cylinder(P([0, 0, 0]), P([0, 0, 2]), P([1, 0, 0]))
        elif kind == "semicylinder":
            shape = cb.SemiCylinder(P([0, 0, 0]), P([0, 0, 2]), P([1, 0, 0]))
        elif kind == "frustum":
            shape = cb.Frustum(P([0, 0, 0]), P([0, 0, 2]), P([1, 0, 0]), 0.4 * s)
        elif kind == "elbow":
            shape = cb.Elbow(P([0, 0, 0]), P([1, 0, 0]), V([0, 0, 1]), 1.0, P([3, 0, 0]), V([0, 1, 0]), 0.7 * s)
        elif kind == "extruded_ring":
            # hollow shapes: no core at all, every operation reaches the outer surface
            shape = cb.ExtrudedRing(P([0, 0, 0]), P([0, 0, 2]), P([1.5, 0, 0]), 0.7 * s, rng.choice([4, 6, 8]))
        elif kind == "expanded_ring":
            shape = cb.ExtrudedRing.expand(cb.Cylinder(P([0, 0, 0]), P([0, 0, 2]), P([1, 0, 0])), 0.6 * s)
        elif kind == "onecore":
            sketch = cb.OneCoreDisk(P([0, 0, 0]), P([1, 0, 0]), V([0, 0, 1]))
        elif kind == "fourcore":
            sketch = cb.FourCoreDisk(P([0, 0, 0]), P([1, 0, 0]), V([0, 0, 1]))
        elif kind == "wrapped":
            sketch = cb.WrappedDisk(P([0, 0, 0]), P([2, 0, 0]), 0.9 * s, V([0, 0, 1]))
        elif kind == "halfdisk":
            sketch = cb.HalfDisk(P([0, 0, 0]), P([1, 0, 0]), V([0, 0, 1]))
        elif kind == "oval":
            sketch = cb.Oval(P([0, 0, 0]), P([2, 0, 0]), V([0, 0, 1]), 1.0 * s)
        elif kind in ("qspline", "hspline", "fspline"):
            # spline-round sketches with circular parameters (no straight parts, equal radii): the outer surface is the
            # circle through the two corner points
            from classy_blocks.construct.flat.sketches import spline_round as sr
            cls = {"qspline": sr.QuarterSplineDisk, "hspline": sr.HalfSplineDisk, "fspline": sr.SplineDisk}[kind]
            sketch = cls(P([0, 0, 0]), P([1.5, 0, 0]), P([0, 1.5, 0]), 0, 0)
        else:
            raise ValueError(kind)
    except Exception as err:  # pylint: disable=broad-except
        ctx.violation(f"round-raises:{kind}:{type(err).__name__}", str(err), {"kind": kind})
        return None
    ents = []
    tol = 1e-6 * s
    if sketch is None:
        core_ids = {id(o) for o in shape.core}
        shell_ids = {id(o) for o in shape.shell}
        c1, c2 = list(shape.sketch_1.center), list(shape.sketch_2.center)
        r1, r2 = shape.sketch_1.radius, shape.sketch_2.radius
        for op in shape.operations:
            pa = op.point_array
            on = sum(1 for p in pa[:4] if abs(vdist(p, c1) - r1) < tol) + sum(1 for p in pa[4:] if abs(vdist(p, c2) - r2) < tol)
            ents.append([id(op) in core_ids, id(op) in shell_ids, on >= 4, True])
    else:
        core_ids = {id(f) for f in sketch.core}
        shell_ids = {id(f) for f in sketch.shell}
        if kind == "oval":
            centres = [list(sketch.center_1), list(sketch.center_2)]
            radius = 1.0 * s
            # outer boundary of an oval: the two half circles and the straight sides at distance radius from the centre line
            c1, c2 = centres
            axis = vsub(c2, c1)

            def on_outer(p):
                t = max(0.0, min(1.0, vdot(vsub(p, c1), axis) / vdot(axis, axis)))
                return abs(vdist(p, vadd(c1, vmul(axis, t))) - radius) < tol
        elif kind == "wrapped":
            # the outer boundary is the square through the corner point: a face reaches it with two of the square's corners
            c0 = list(P([0, 0, 0]))
            radius = vdist(P([2, 0, 0]), c0)

            def on_outer(p):
                return abs(vdist(p, c0) - radius) < tol
        elif kind in ("qspline", "hspline", "fspline"):
            c0 = list(sketch.center)
            radius = 1.5 * s

            def on_outer(p):
                return abs(vdist(p, c0) - radius) < tol
        else:
            c0 = list(sketch.center)
            radius = sketch.radius

            def on_outer(p):
                return abs(vdist(p, c0) - radius) < tol
        for face in sketch.faces:
            on = sum(1 for p in face.point_array if on_outer(list(p)))
            ents.append([id(face) in core_ids, id(face) in shell_ids, on >= 2, True])
    if kind in ("qspline", "hspline", "fspline"):
        # the same sketch extruded (and the extruded shape stacked): grid[0] / grid[1] of the SHAPE address the operations
        # over the core / shell faces, and every operation stands on one location of the sketch with both of its ends
        try:
            height = 1.3 * s
            shape = cb.ExtrudedShape(sketch, height)
            normal = [float(x) for x in sketch.normal]
            normal = vmul(normal, 1.0 / vnorm(normal))
            core_ids = {id(o) for o in shape.grid[0]}
            shell_ids = {id(o) for o in shape.grid[1]}
            for op in shape.operations:
                pa = [list(p) for p in op.point_array]
                on_b = sum(1 for p in pa[:4] if on_outer(p))
                on_t = sum(1 for p in pa[4:] if on_outer(vsub(p, vmul(normal, height))))
                coherent = all(vdist(pa[i + 4], vadd(pa[i], vmul(normal, height))) < tol for i in range(4))
                ents.append([id(op) in core_ids, id(op) in shell_ids, on_b >= 2 and on_t >= 2, coherent])
        except Exception as err:  # pylint: disable=broad-except
            ctx.violation(f"round-raises:{kind}:extruded:{type(err).__name__}", str(err), {"kind": kind})
            return None
    ctx.evaluated(f"round:{kind}")
    return {"id": rid, "kind": "round", "stack": kind, "nx": 0, "ny": 0, "nz": 0, "grid": [], "slices": [], "deleted": [], "entities": ents,
            "rings": 3 if kind == "wrapped" else 2}


def run(ctx: Ctx) -> None:
    ctx.rule = ("stacks = extruded/revolved/transformed stacks on nx x ny grids with nz tiers (all three different where possible) in "
                "random placement; every address, every slice, two deletions per stack; round shapes and disk sketches; "
                "non-trivial = counts differ in at least two directions; distinct by (kind, sizes)")
    res = run_tlc("Grid", "Grid_mc.cfg", workers=4, timeout=600)
    ctx.add_tlc(res)
    rng = random.Random(ctx.seed + 19)
    sizes = [(nx, ny, nz) for nx in range(1, 6) for ny in range(1, 6) for nz in range(1, 5)]
    distinct = [s for s in sizes if len(set(s)) == 3]
    n = 12 if ctx.tier == "quick" else 100
    picks = rng.sample(distinct, min(n, len(distinct))) + rng.sample(sizes, 3 if ctx.tier == "quick" else 30)
    recs: List[dict] = []
    stack_kinds = ["extruded", "extruded-list", "extruded-tuple", "extruded-array", "revolved", "transformed", "transformed-scaled"]
    rng.shuffle(stack_kinds)
    for n_pick, dims in enumerate(picks):
        kind = stack_kinds[n_pick % len(stack_kinds)]
        r = stack_record(ctx, len(recs) + 1, rng, kind, dims)
        if r is not None:
            recs.append(r)
            if len(set(dims)) >= 2:
                ctx.nontrivial.add(f"{kind}:{dims}")
    for kind in ["cylinder", "semicylinder", "frustum", "elbow", "extruded_ring", "expanded_ring", "onecore", "fourcore", "wrapped", "halfdisk", "oval", "qspline", "hspline", "fspline"]:
        for _ in range(1 if ctx.tier == "quick" else 4):
            r = round_record(ctx, len(recs) + 1, rng, kind)
            if r is not None:
                recs.append(r)
    if not recs:
        raise MachineryError("no record")
    path = os.path.join(ctx.tmp, "grid.json")
    with open(path, "w", encoding="utf-8") as f:
        json.dump({"recs": recs}, f)
    res = run_tlc("Grid", "Grid_judge.cfg", env={"VERIF_TRACE_FILE": path}, workers=1, timeout=600)
    ctx.add_tlc(res)
    verdicts = {v["id"]: v["fails"] for v in res.records if "id" in v}
    if len(verdicts) != len(recs):
        raise MachineryError("Grid judge returned too few verdicts")
    for r in recs:
        ctx.validated()
        for c in verdicts[r["id"]]:
            ctx.violation(f"addressing:{c}:{r['stack']}", f"Grid.tla clause {c} rejected a {r['stack']} record",
                          {k: r[k] for k in ("stack", "nx", "ny", "nz", "deleted", "entities")})
    ctx.sample({k: recs[0][k] for k in ("stack", "nx", "ny", "nz", "deleted")})
    ctx.exhaustive = False
