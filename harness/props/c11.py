"""C11 - predefined shapes give right-handed, conformal, fully choppable blockings.

Every shape class, sketch-based shape, stack and joint is instantiated in random placement / size / segment
counts, alone and in chains (chain, expand, contract, fill), chopped with its documented chop calls, assembled
and written; the block vertex indexes, corner-Jacobian signs, vertex count, arc-on-circle predicate, write
outcome and interface groups are recorded and TLC (Blocking.tla) judges every record: no quad is a side of more
than two blocks, blocks sharing three or more vertices share a whole side, the blocking is connected through
common sides, right-handed, has the class's vertex count, chained shapes share exactly the interface vertices.
"""

from __future__ import annotations

import json
import math
import os
import random
from typing import Dict, List, Optional

from .. import bmd, examples, hexref
from ..common import Ctx, MachineryError
from ..renderlib import vadd, vcross, vdist, vdot, vmul, vnorm, vsub
from ..tlc import run_tlc
from .grading_judge import _rand_frame


def jacobians(pts: List[List[float]]) -> List[bool]:
    out = []
    for c in range(8):
        x, y, z = hexref.XYZ[c]
        vs = []
        for axis in range(3):
            q = list(hexref.XYZ[c])
            q[axis] = 1 - q[axis]
            n = hexref.CORNER_AT[tuple(q)]
            d = vsub(pts[n], pts[c])
            if hexref.XYZ[c][axis] == 1:
                d = vmul(d, -1.0)
            vs.append(d)
        out.append(bool(vdot(vs[0], vcross(vs[1], vs[2])) > 0))
    return out


class Scene:
    def __init__(self, rng: random.Random):
        rot, org = _rand_frame(rng)
        self.s = 10 ** rng.uniform(-1, 1)
        self.rot, self.org, self.rng = rot, org, rng

    def P(self, p):
        return [self.org[i] + self.s * sum(self.rot[i][j] * p[j] for j in range(3)) for i in range(3)]

    def V(self, v):
        return [sum(self.rot[i][j] * v[j] for j in range(3)) for i in range(3)]


def chop_round(shape, n=2):
    shape.chop_axial(count=n)
    shape.chop_radial(count=n)
    shape.chop_tangential(count=n)


def chop_sketch_shape(shape, n=2):
    for a in range(3):
        shape.chop(a, count=n)


def build(kind: str, sc: Scene):
    """returns (entities, groups as lists of entities, interfaces [(i, j, expected shared)], expected vertex count, circle info)"""
    import classy_blocks as cb

    rng, P, V, s = sc.rng, sc.P, sc.V, sc.s
    r = rng.uniform(0.6, 1.6)
    h = rng.uniform(0.8, 3.0)
    circ = None
    if kind == "box":
        e = cb.Box(P([0, 0, 0]), P([1, 1, 1])) if False else cb.Loft(cb.Face([P(p) for p in ([0, 0, 0], [2, 0, 0], [2, 1, 0], [0, 1, 0])]), cb.Face([P(p) for p in ([0, 0, h], [2, 0, h], [2, 1, h], [0, 1, h])]))
        for a in range(3):
            e.chop(a, count=2)
        return [e], [[e]], [], 8, None
    if kind == "extrude":
        e = cb.Extrude(cb.Face([P(p) for p in ([0, 0, 0], [2, 0.2, 0], [2.1, 1, 0.1], [0, 1.2, 0])]), V([0.2 * s, 0.1 * s, h * s]))
        for a in range(3):
            e.chop(a, count=2)
        return [e], [[e]], [], 8, None
    if kind == "revolve":
        # turning about -y moves the face along its own normal (+z): a right-handed block
        e = cb.Revolve(cb.Face([P(p) for p in ([1, 0, 0], [2, 0, 0], [2, 1, 0], [1, 1, 0])]), rng.uniform(0.3, 1.5), V([0, -1, 0]), P([0, 0, 0]))
        for a in range(3):
            e.chop(a, count=2)
        return [e], [[e]], [], 8, None
    if kind in ("revolve_placed", "revolved_ring_placed", "wedge_placed", "revolved_shape_placed"):
        # built where it is simplest and then PLACED with the library's own transformations, as user scripts do: every arc
        # of a revolved operation stays an arc about the (transformed) axis
        from .c07 import rot as rot_own, scl as scl_own
        if kind == "revolve_placed":
            axis_p, axis_d = [0.3, 0.0, -0.2], [0.1, -1.0, 0.15]
            e = cb.Revolve(cb.Face([[1, 0, 0], [2, 0.1, 0], [2.1, 1, 0.1], [1, 1.2, 0]]), rng.uniform(0.3, 1.5), axis_d, axis_p)
            for a in range(3):
                e.chop(a, count=2)
            nverts = 8
        elif kind == "revolved_shape_placed":
            # the sketch-based shape: a grid of faces revolved about an axis in its plane
            axis_p, axis_d = [0.0, -0.5, 0.0], [1.0, 0.0, 0.0]
            nx, ny = rng.choice([1, 2]), rng.choice([1, 2])
            e = cb.RevolvedShape(cb.Grid([0.2, 0.4, 0], [1.8, 1.5, 0], nx, ny), rng.uniform(0.4, 1.4), axis_d, axis_p)
            for op in e.grid[0]:
                op.chop(0, count=2)          # a Grid has no chop lists of its own: one row, one column, one tier
            for row in e.grid:
                row[0].chop(1, count=2)
            e.operations[0].chop(2, count=2)
            nverts = 2 * (nx + 1) * (ny + 1)
        elif kind == "wedge_placed":
            axis_p, axis_d = [0.0, 0.0, 0.0], [1.0, 0.0, 0.0]
            e = cb.Wedge(cb.Face([[0, 0.5, 0], [1.5, 0.5, 0], [1.4, 1.2, 0], [0.1, 1.0, 0]]))
            e.chop(0, count=2)
            e.chop(1, count=2)
            nverts = 8
        else:
            n = rng.choice([3, 5, 8])
            axis_p, axis_d = [0.0, 0.0, 0.0], [2.0, 0.0, 0.0]
            e = cb.RevolvedRing(axis_p, [2, 0, 0], cb.Face([[0.2, 1.0, 0], [1.2, 1.0, 0], [1.1, 1.8, 0], [0.3, 1.6, 0]]), n)
            chop_round(e)
            nverts = 4 * n
        a1, ax1, o1 = rng.uniform(-2.5, 2.5), [rng.uniform(-1, 1) for _ in range(3)], [rng.uniform(-2, 2) for _ in range(3)]
        k, o2 = rng.choice([0.3, 1.0, 4.0]), [rng.uniform(-2, 2) for _ in range(3)]
        d = [rng.uniform(-5, 5) for _ in range(3)]
        e.rotate(a1, ax1, o1)
        e.scale(k, o2)
        e.translate(d)
        place = lambda p: vadd(scl_own(rot_own(p, a1, ax1, o1), k, o2), d)     # noqa: E731
        q0, q1 = place(axis_p), place(vadd(axis_p, axis_d))
        sc.s = k
        return [e], [[e]], [], nverts, ("about-axis", q0, vsub(q1, q0), 0, 0, 0)
    if kind == "cylinder":
        e = cb.Cylinder(P([0, 0, 0]), P([0, 0, h]), P([r, 0, 0]))
        chop_round(e)
        return [e], [[e]], [], 34, ("axis", P([0, 0, 0]), V([0, 0, 1]), r * s, r * s, h * s)
    if kind == "semicylinder":
        e = cb.SemiCylinder(P([0, 0, 0]), P([0, 0, h]), P([r, 0, 0]))
        chop_round(e)
        return [e], [[e]], [], 22, ("axis", P([0, 0, 0]), V([0, 0, 1]), r * s, r * s, h * s)
    if kind == "frustum":
        r2 = rng.uniform(0.3, 1.4)
        e = cb.Frustum(P([0, 0, 0]), P([0, 0, h]), P([r, 0, 0]), r2 * s)
        chop_round(e)
        return [e], [[e]], [], 34, ("axis", P([0, 0, 0]), V([0, 0, 1]), r * s, r2 * s, h * s)
    if kind == "elbow":
        e = cb.Elbow(P([0, 0, 0]), P([r, 0, 0]), V([0, 0, 1]), rng.uniform(0.4, 1.4), P([3, 0, 0]), V([0, 1, 0]), rng.uniform(0.5, 1.2) * s)
        chop_round(e)
        return [e], [[e]], [], 34, None
    if kind == "extruded_ring":
        n = rng.choice([3, 4, 6, 8])
        e = cb.ExtrudedRing(P([0, 0, 0]), P([0, 0, h]), P([2 * r, 0, 0]), r * s, n)
        chop_round(e)
        return [e], [[e]], [], 4 * n, ("axis", P([0, 0, 0]), V([0, 0, 1]), 2 * r * s, 2 * r * s, h * s)
    if kind == "revolved_ring":
        n = rng.choice([3, 5, 8])
        e = cb.RevolvedRing(P([0, 0, 0]), P([2, 0, 0]), cb.Face([P(p) for p in ([0.2, 1.0, 0], [1.2, 1.0, 0], [1.1, 1.8, 0], [0.3, 1.6, 0])]), n)
        chop_round(e)
        return [e], [[e]], [], 4 * n, None
    if kind == "hemisphere":
        e = cb.Hemisphere(P([0, 0, 0]), P([r, 0, 0]), V([0, 0, 1]))
        chop_round(e)
        return [e], [[e]], [], 0, None
    if kind == "shell":
        faces = [cb.Face([P(p) for p in ([0, 0, 0], [1, 0, 0], [1, 1, 0], [0, 1, 0])]), cb.Face([P(p) for p in ([1, 0, 0], [2, 0, 0.3], [2, 1, 0.3], [1, 1, 0])])]
        e = cb.Shell(faces, 0.3 * s)
        e.chop(count=2)
        e.operations[0].chop(0, count=2)
        e.operations[0].chop(1, count=2)
        e.operations[1].chop(0, count=2)
        return [e], [[e]], [], 12, None
    if kind in ("onecore", "fourcore", "halfdisk", "oval", "wrapped", "splinedisk", "halfsplinedisk", "quartersplinedisk", "splinering"):
        if kind == "onecore":
            sk = cb.OneCoreDisk(P([0, 0, 0]), P([r, 0, 0]), V([0, 0, 1]))
        elif kind == "fourcore":
            sk = cb.FourCoreDisk(P([0, 0, 0]), P([r, 0, 0]), V([0, 0, 1]))
        elif kind == "halfdisk":
            sk = cb.HalfDisk(P([0, 0, 0]), P([r, 0, 0]), V([0, 0, 1]))
        elif kind == "oval":
            sk = cb.Oval(P([0, 0, 0]), P([2, 0, 0]), V([0, 0, 1]), r * s)
        elif kind == "wrapped":
            sk = cb.WrappedDisk(P([0, 0, 0]), P([2, 2, 0]), r * s, V([0, 0, 1]))
        elif kind == "splinedisk":
            sk = cb.SplineDisk(P([0, 0, 0]), P([0, r, 0]), P([0, 0, 1.3 * r]), 0.3 * s, 0.2 * s)
        elif kind == "halfsplinedisk":
            sk = cb.HalfSplineDisk(P([0, 0, 0]), P([0, r, 0]), P([0, 0, 1.3 * r]), 0.3 * s, 0.2 * s)
        elif kind == "quartersplinedisk":
            sk = cb.QuarterSplineDisk(P([0, 0, 0]), P([0, r, 0]), P([0, 0, 1.3 * r]), 0.3 * s, 0.2 * s)
        else:
            sk = cb.SplineRing(P([0, 0, 0]), P([0, r, 0]), P([0, 0, 1.3 * r]), 0.3 * s, 0.2 * s, 0.4 * s, 0.4 * s)
        e = cb.ExtrudedShape(sk, h * s)
        chop_sketch_shape(e)
        return [e], [[e]], [], 0, None
    if kind in ("extruded_stack", "revolved_stack", "transformed_stack"):
        nx, ny, nz = rng.randint(1, 3), rng.randint(1, 3), rng.randint(1, 3)
        grid = cb.Grid([0, 0, 0], [2.0, 1.5, 0], nx, ny)
        grid.rotate(rng.uniform(-3, 3), V([0.3, 1, 0.5]), P([0.2, 0.1, 0.4])).translate(P([0, 0, 0]))
        if kind == "extruded_stack":
            e = cb.ExtrudedStack(grid, h, nz)
        elif kind == "transformed_stack":
            e = cb.TransformedStack(grid, [cb.Translation(vmul(list(grid.normal), h / nz)), cb.Rotation(list(grid.normal), 0.2, list(grid.center))], nz)
        else:
            c = list(grid.center)
            ydir = vsub(list(grid.faces[0].points[3].position), list(grid.faces[0].points[0].position))
            xdir = vsub(list(grid.faces[0].points[1].position), list(grid.faces[0].points[0].position))
            origin = vsub(c, vmul(xdir, 5.0 * nx))
            # the sense of rotation that carries the sketch along its normal
            if vdot(vcross(ydir, vsub(c, origin)), list(grid.normal)) < 0:
                ydir = vmul(ydir, -1.0)
            e = cb.RevolvedStack(grid, rng.uniform(0.4, 1.5), ydir, origin, nz)
        e.chop(count=2)
        for i in range(nx):
            e.grid[0][0][i].chop(0, count=2)
        for j in range(ny):
            e.grid[0][j][0].chop(1, count=2)
        return [e], [[e]], [], (nx + 1) * (ny + 1) * (nz + 1), None
    if kind in ("ljoint", "tjoint", "njoint3", "njoint4", "njoint5"):
        if kind == "ljoint":
            e = cb.LJoint(P([0, 0, 0]), P([2, 0, 0]), P([0, 0.4, 0]))
        elif kind == "tjoint":
            e = cb.TJoint(P([0, 0, 0]), P([2, 0, 0]), P([0, 0.4, 0]))
        else:
            e = cb.NJoint(P([0, 0, 0]), P([2, 0, 0]), P([0, 0.4, 0]), int(kind[-1]))
        chop_round(e)
        return [e], [[e]], [], 0, None
    if kind == "connector":
        # two hexahedra with arbitrary (rotational) corner numberings, the second one offset and turned; the connector joins the
        # two sides that face each other: four vertices in common with each, a right-handed block in between
        def numbered(pts8):
            img = hexref.SYMS[rng.choice(sorted(hexref.ROT_IDX))]
            q = [pts8[img[k]] for k in range(8)]
            return cb.Loft(cb.Face(q[:4]), cb.Face(q[4:]))
        unit = [[float(c) for c in xyz] for xyz in hexref.XYZ]
        axis = rng.randrange(3)
        sign = rng.choice([-1, 1])
        off = [rng.uniform(-0.3, 0.3) for _ in range(3)]
        off[axis] = sign * rng.uniform(2.5, 4.0)
        from .c07 import rot as rot_own
        turn, tax = rng.uniform(-0.4, 0.4), [rng.uniform(-1, 1) for _ in range(3)]
        second = [rot_own(p, turn, tax, [0.5, 0.5, 0.5]) for p in unit]
        # Connector looks at its loft from "above" the first operation (along its bottom -> top direction) with the second
        # operation as the ceiling: when the first operation's own top faces the second one the two directions coincide and
        # the numbering it produces is arbitrary (bottom/top end up on lateral sides). Connector is not among the shapes the
        # property lists, so only the well-posed configurations are generated: first operation's axis across the connection.
        for _ in range(50):
            a = numbered([P(p) for p in unit])
            up = vsub(list(a.top_face.center), list(a.bottom_face.center))
            conn = sc.V([1.0 if i == axis else 0.0 for i in range(3)])
            if abs(vdot(up, conn)) < 0.3 * vnorm(up) * vnorm(conn):
                break
        b = numbered([P(vadd(p, off)) for p in second])
        for o in (a, b):
            for ax in range(3):
                o.chop(ax, count=2)
        c = cb.Connector(a, b)
        c.chop(2, count=2)
        return [a, b, c], [[a], [b], [c]], [(0, 2, 4), (1, 2, 4), (0, 1, 0)], 16, None
    # ---- chains
    if kind.startswith("chain_"):
        cyl = cb.Cylinder(P([0, 0, 0]), P([0, 0, h]), P([r, 0, 0]))
        ents = [cyl]
        iface = []
        steps = rng.randint(1, 3)
        last = cyl
        for k in range(steps):
            what = rng.choice(["cylinder", "frustum", "elbow", "hemisphere"] if k == steps - 1 else ["cylinder", "frustum", "elbow"])
            if what == "cylinder":
                nxt = cb.Cylinder.chain(last, rng.uniform(0.5, 2) * s)
            elif what == "frustum":
                nxt = cb.Frustum.chain(last, rng.uniform(0.5, 2) * s, rng.uniform(0.4, 1.2) * s)
            elif what == "elbow":
                c0 = list(last.sketch_2.center)
                rv = vsub(list(last.sketch_2.radius_point), c0)
                nrm = list(last.sketch_2.normal)
                arc_center = vadd(c0, vmul(rv, 3.0))
                nxt = cb.Elbow.chain(last, rng.uniform(0.4, 1.2), arc_center, vcross(nrm, rv), last.sketch_2.radius)
            else:
                nxt = cb.Hemisphere.chain(last)
            iface.append((len(ents) - 1, len(ents), 17))
            ents.append(nxt)
            last = nxt
            if what == "hemisphere":
                break
        for sh in ents:
            sh.chop_axial(count=2)
        ents[0].chop_radial(count=2)
        ents[0].chop_tangential(count=2)
        return ents, [[x] for x in ents], iface, 0, None
    if kind == "expand":
        cyl = cb.Cylinder(P([0, 0, 0]), P([0, 0, h]), P([r, 0, 0]))
        ring = cb.ExtrudedRing.expand(cyl, 0.5 * s)
        ring2 = cb.ExtrudedRing.expand(ring, 0.4 * s)
        chop_round(cyl)
        ring.chop_radial(count=2)
        ring2.chop_radial(count=2)
        return [cyl, ring, ring2], [[cyl], [ring], [ring2]], [(0, 1, 16), (1, 2, 16), (0, 2, 0)], 34 + 16 + 16, None
    if kind == "fill_contract":
        ring = cb.ExtrudedRing(P([0, 0, 0]), P([0, 0, h]), P([2 * r, 0, 0]), 1.2 * r * s, 8)
        # (every other source is resized and moved after it was built: what is chained / contracted / filled is the shape as it is)
        k = rng.choice([1.0, 0.5, 2.0])
        if k != 1.0:
            ring.scale(k, P([0.3, -0.2, 0.1])).rotate(0.4, V([0.2, 1.0, 0.3]), P([0, 0, 0]))
        inner = cb.ExtrudedRing.contract(ring, 0.7 * r * s * k)
        cyl = cb.Cylinder.fill(inner)
        chop_round(ring)
        inner.chop_radial(count=2)
        cyl.chop_radial(count=2)
        return [ring, inner, cyl], [[ring], [inner], [cyl]], [(0, 1, 16), (1, 2, 16), (0, 2, 0)], 32 + 16 + 18, None
    if kind == "ring_chain":
        n = rng.choice([4, 6, 8])
        ring = cb.ExtrudedRing(P([0, 0, 0]), P([0, 0, h]), P([2 * r, 0, 0]), r * s, n)
        k = rng.choice([1.0, 0.5, 2.0])
        if k != 1.0:
            ring.scale(k, P([0.3, -0.2, 0.1])).rotate(0.4, V([0.2, 1.0, 0.3]), P([0, 0, 0]))
        nxt = cb.ExtrudedRing.chain(ring, rng.uniform(0.5, 2) * s)
        prev = cb.ExtrudedRing.chain(ring, rng.uniform(0.5, 2) * s, start_face=True)
        chop_round(ring)
        nxt.chop_axial(count=2)
        prev.chop_axial(count=2)
        return [ring, nxt, prev], [[ring], [nxt], [prev]], [(0, 1, 2 * n), (0, 2, 2 * n), (1, 2, 0)], 8 * n, None
    raise ValueError(kind)


KINDS = ["box", "extrude", "revolve", "revolve_placed", "revolved_ring_placed", "wedge_placed", "revolved_shape_placed", "cylinder", "semicylinder", "frustum", "elbow", "extruded_ring", "revolved_ring", "hemisphere",
         "shell", "onecore", "fourcore", "halfdisk", "oval", "wrapped", "splinedisk", "halfsplinedisk", "quartersplinedisk", "splinering",
         "extruded_stack", "revolved_stack", "transformed_stack", "ljoint", "tjoint", "njoint3", "njoint4", "njoint5",
         "chain_a", "chain_b", "chain_c", "expand", "fill_contract", "ring_chain"]
# "connector" can be built (see build()) but is not judged: Connector is not among the shapes C11 lists, and it fails in ways that
# are outside every listed property - with the first operation's own top facing the second one its bottom/top end up on lateral
# sides, and for some mutually turned pairs its re-orientation raises DegenerateGeometryError (DESIGN.md section 7)


def record(ctx: Ctx, rid: int, kind: str, rng: random.Random, write: bool = True) -> Optional[dict]:
    import classy_blocks as cb

    sc = Scene(rng)
    try:
        ents, groups, iface, exp_nverts, circ = build(kind, sc)
    except Exception as err:  # pylint: disable=broad-except
        ctx.violation(f"shape-raises:{kind}:{type(err).__name__}", f"constructing {kind} raised {err}", {"kind": kind})
        return None
    mesh = cb.Mesh()
    for e in ents:
        mesh.add(e)
    try:
        mesh.assemble()
    except Exception as err:  # pylint: disable=broad-except
        ctx.violation(f"assemble-raises:{kind}:{type(err).__name__}", f"assembling {kind} raised {err}", {"kind": kind})
        return None
    blocks = [list(b.indexes) for b in mesh.blocks]
    pos = [list(v.position) for v in mesh.vertices]
    jac = [jacobians([pos[i] for i in blk]) for blk in blocks]
    # groups as block index lists (1-based for TLA+)
    from classy_blocks.construct.operations.operation import Operation
    gidx, k = [], 0
    for e in ents:
        n = 1 if isinstance(e, Operation) else len(e.operations)
        gidx.append(list(range(k + 1, k + n + 1)))
        k += n
    # outer arcs on the intended circle / cone
    arcs_ok = True
    if circ is not None and circ[0] == "about-axis":
        _, a0, adir = circ[:3]
        adir = vmul(adir, 1.0 / vnorm(adir))
        for edge in mesh.edge_list.edges:
            if edge.kind not in ("origin", "arc", "angle"):
                continue
            info = []
            for p in (list(edge.vertex_1.position), list(edge.third_point.position), list(edge.vertex_2.position)):
                rel = vsub(p, a0)
                ax = vdot(rel, adir)
                info.append((ax, vnorm(vsub(rel, vmul(adir, ax)))))
            if max(abs(info[i][j] - info[0][j]) for i in (1, 2) for j in (0, 1)) > 1e-6 * max(1.0, sc.s):
                arcs_ok = False
    elif circ is not None:
        _, a0, adir, r1, r2, hh = circ
        adir = vmul(adir, 1.0 / vnorm(adir))
        for edge in mesh.edge_list.edges:
            if edge.kind not in ("origin", "arc", "angle"):
                continue
            pts3 = [list(edge.vertex_1.position), list(edge.third_point.position), list(edge.vertex_2.position)]
            info = []
            for p in pts3:
                rel = vsub(p, a0)
                ax = vdot(rel, adir)
                rad = vnorm(vsub(rel, vmul(adir, ax)))
                info.append((ax, rad))
            want = [r1 + (r2 - r1) * (ax / hh) for ax, _ in info]
            on_outer = abs(info[0][1] - want[0]) < 1e-6 * sc.s and abs(info[2][1] - want[2]) < 1e-6 * sc.s
            if on_outer and abs(info[0][0] - info[2][0]) < 1e-6 * sc.s:
                if abs(info[1][1] - want[1]) > 1e-6 * sc.s or abs(info[1][0] - info[0][0]) > 1e-6 * sc.s:
                    arcs_ok = False
    # chained shapes lie on opposite sides of their (planar) interface
    opposite_ok = True
    if kind.startswith("chain_") or kind == "ring_chain":
        for a, b, n in iface:
            if n == 0:
                continue
            va = {i for bi in gidx[a] for i in blocks[bi - 1]}
            vb = {i for bi in gidx[b] for i in blocks[bi - 1]}
            shared = sorted(va & vb)
            if len(shared) < 3:
                continue
            c0 = [sum(pos[i][d] for i in shared) / len(shared) for d in range(3)]
            # plane normal from the shared points (they are coplanar: an end sketch)
            nrm = None
            for i in shared[1:]:
                for j in shared[2:]:
                    cand = vcross(vsub(pos[i], pos[shared[0]]), vsub(pos[j], pos[shared[0]]))
                    if vnorm(cand) > 1e-9 * sc.s * sc.s:
                        nrm = cand
                        break
                if nrm is not None:
                    break
            if nrm is None:
                continue
            # only the layer of vertices next to the interface (elbows bend away further on)
            def side(vs):
                near = sorted(vs - set(shared), key=lambda i: vdist(pos[i], c0))[:8]
                return [vdot(vsub(pos[i], c0), nrm) for i in near]
            sa, sb = side(va), side(vb)
            if sa and sb and not ((max(sa) < 0 < min(sb)) or (max(sb) < 0 < min(sa))):
                opposite_ok = False
    path = os.path.join(ctx.tmp, "c11.bmd")
    write_ok, err_name = True, ""
    try:
        if write:
            mesh.write(path)
    except Exception as err:  # pylint: disable=broad-except
        write_ok, err_name = False, type(err).__name__
    ctx.evaluated(f"{kind}:{len(blocks)}")
    return {"id": rid, "kind": kind, "blocks": blocks, "jac": jac, "nverts": len(pos), "exp_nverts": exp_nverts, "arcs_ok": arcs_ok, "opposite_ok": opposite_ok,
            "write_ok": write_ok, "write_error": err_name, "groups": gidx, "iface": [[a + 1, b + 1, n] for a, b, n in iface]}


def shell_stores(ctx: Ctx, rng: random.Random) -> None:
    """Shell.tla: TLC checks Unique / Owners / Covers / Stable / Conformal / Outward of the shared-point store over every
    ordered list of up to MaxF outer sides of two unit cubes and emits every finished store with the integer offset direction
    of every corner; each list is built as faces under a random similarity, handed to the real Shell and every loft compared:
    bottom = the face as given, top corner = corner + amount x unit(direction); Shell.chop raises exactly for the lists
    with a solitary face; a connected list, chopped, is written and has 2 x npoints vertices."""
    import classy_blocks as cb
    from classy_blocks.construct.shapes.shell import DisconnectedChopError
    from .c08 import similarity
    from .grading import cfg_text

    consts = {"MaxF": "3" if ctx.tier == "quick" else "4"}
    res = run_tlc("Shell", "shell.cfg", cfg_text=cfg_text("Spec", consts, ["Unique", "Owners", "Covers", "Conformal", "Outward"], ["Stable"],
                                                          constraints=["Emit"]), workers=1, timeout=1200)
    ctx.add_tlc(res)
    cases = [r for r in res.records if "shell" in r]
    if len(cases) < 800:
        raise MachineryError("Shell.tla emitted too few stores")
    rng.shuffle(cases)
    written = 0
    for n, case in enumerate(cases[: (200 if ctx.tier == "quick" else 3000)]):
        point, vector, scale = similarity(rng)
        amount = rng.uniform(0.1, 0.6) * scale
        rep = {"shell": case["shell"], "amount_over_scale": amount / scale}
        key = f"{len(case['shell'])}:{case['npoints']}:{case['disconnected']}"
        try:
            faces = [cb.Face([point([float(c) for c in p]) for p in pts]) for pts in case["shell"]]
            before = [[list(q) for q in f.point_array] for f in faces]
            shell = cb.Shell(faces, amount)
            ops = shell.operations
            got = [([list(q) for q in op.bottom_face.point_array], [list(q) for q in op.top_face.point_array]) for op in ops]
        except Exception as err:  # pylint: disable=broad-except
            ctx.violation(f"shell:raises:{type(err).__name__}", f"Shell raised {err}", rep)
            continue
        ctx.evaluated(f"shell:{case['shell']}")
        ctx.validated()
        ctx.nontrivial.add(f"shell-store:{key}")
        tol = 1e-9 * max(1.0, scale)
        bad = None
        if len(got) != len(faces):
            bad = "count"
        for f in range(len(faces)):
            if bad:
                break
            for k in range(4):
                d = vector([float(c) for c in case["dirs"][f][k]])
                want = vadd(before[f][k], vmul(d, amount / vnorm(d)))
                if vdist(got[f][0][k], before[f][k]) > tol:
                    bad = "bottom"
                elif vdist(got[f][1][k], want) > tol:
                    bad = "top"
        if bad:
            ctx.violation(f"shell:{bad}", f"loft of a Shell differs from Shell.tla's ({bad}): {len(faces)} faces, {case['npoints']} shared points", rep)
            continue
        # chop in the offset direction: refused exactly when a face touches no other
        try:
            shell.chop(count=2)
            raised = False
        except DisconnectedChopError:
            raised = True
        except Exception as err:  # pylint: disable=broad-except
            ctx.violation(f"shell:chop-raises:{type(err).__name__}", f"Shell.chop raised {err}", rep)
            continue
        if raised != bool(case["disconnected"]):
            ctx.violation("shell:disconnected", f"Shell.chop {'refused' if raised else 'accepted'} a list Shell.tla calls "
                          f"{'disconnected' if case['disconnected'] else 'connected'}", rep)
            continue
        # (four faces may come as two pairs that do not touch each other: no face is solitary, Shell.chop accepts the list and
        #  chops the first loft - the other pair then has no cells across; the property promises nothing for that, the write is
        #  asked of lists in ONE piece only)
        group = {0}
        for _ in range(len(faces)):
            group |= {b for b in range(len(faces)) for a in group if {tuple(p) for p in case["shell"][a]} & {tuple(p) for p in case["shell"][b]}}
        if not raised and len(group) == len(faces) and written < (12 if ctx.tier == "quick" else 100) and n % 3 == 0:
            written += 1
            try:
                for op in ops:
                    op.chop(0, count=1 + n % 2)
                    op.chop(1, count=1 + n % 2)
                shell.set_outer_patch("outer")
                mesh = cb.Mesh()
                mesh.add(shell)
                mesh.assemble()
                nverts = len(mesh.vertices)
                mesh.write(os.path.join(ctx.tmp, "shell_bmd"))
                with open(os.path.join(ctx.tmp, "shell_bmd"), encoding="utf-8") as fh:
                    parsed = bmd.parse_blockmeshdict(fh.read())
            except Exception as err:  # pylint: disable=broad-except
                ctx.violation(f"shell:write:{type(err).__name__}", f"a connected, chopped Shell is not written: {err}", rep)
                continue
            if nverts != 2 * case["npoints"]:
                ctx.violation("shell:nverts", f"Shell of {len(faces)} faces has {nverts} vertices, Shell.tla expects {2 * case['npoints']}", rep)
                continue
            # the outer patch: one quad per face, the offset corners of that face (Shell.set_outer_patch)
            outer = [b for b in parsed["boundary"] if b["name"] == "outer"]
            tops = [got[f][1][k] for f in range(len(faces)) for k in range(4)]

            def top_id(p):
                # (the file holds about eight decimals: match to the nearest offset corner, within a thousandth of the unit face)
                best = min(range(len(tops)), key=lambda n: vdist(tops[n], p))
                if vdist(tops[best], p) > 1e-3 * scale:
                    return -1
                return min(n for n in range(len(tops)) if vdist(tops[n], tops[best]) <= 1e-9 * max(1.0, scale))
            want_quads = sorted(sorted(top_id(got[f][1][k]) for k in range(4)) for f in range(len(faces)))
            got_quads = sorted(sorted(top_id(parsed["vertices"][i]["p"]) for i in q) for b in outer for q in b["quads"])
            if len(outer) != 1 or got_quads != want_quads or len(parsed["blocks"]) != len(faces):
                ctx.violation("shell:outer-patch", f"the outer patch of a Shell of {len(faces)} faces is not the offset faces "
                              f"({sum(len(b['quads']) for b in outer)} quads written)", rep)


def run(ctx: Ctx) -> None:
    ctx.rule = ("records = every shape class / sketch-based shape / stack / joint / chain in random placement, size and segment "
                "count with its documented chop calls; non-trivial = more than one block; distinct by (kind, block count)")
    rng = random.Random(ctx.seed + 11)
    reps = 1 if ctx.tier == "quick" else 8
    recs: List[dict] = []
    for _ in range(reps):
        for kind in KINDS:
            r = record(ctx, len(recs) + 1, kind, rng)
            if r is not None:
                recs.append(r)
            # further placements, sizes and orientations of the same kind: assembled and judged, not written
            for _k in range(3):
                r = record(ctx, len(recs) + 1, kind, rng, write=False)
                if r is not None:
                    recs.append(r)
    if not recs:
        raise MachineryError("no shape record")
    path = os.path.join(ctx.tmp, "blocking.json")
    with open(path, "w", encoding="utf-8") as f:
        json.dump({"recs": recs}, f)
    res = run_tlc("Blocking", "Blocking.cfg", env={"VERIF_TRACE_FILE": path}, workers=1, timeout=1200)
    ctx.add_tlc(res)
    verdicts = {v["id"]: v["fails"] for v in res.records if "id" in v}
    if len(verdicts) != len(recs):
        raise MachineryError("Blocking judge returned too few verdicts")
    for r in recs:
        ctx.validated()
        if len(r["blocks"]) > 1:
            ctx.nontrivial.add(f"{r['kind']}:{len(r['blocks'])}")
        for c in verdicts[r["id"]]:
            extra = f":{r['write_error']}" if c == "write" else ""
            ctx.violation(f"blocking:{c}:{r['kind'].split('_')[0] if r['kind'].startswith('chain') else r['kind']}{extra}",
                          f"Blocking.tla clause {c} rejected a {r['kind']} record ({len(r['blocks'])} blocks, {r['nverts']} vertices)",
                          {k: r[k] for k in ("kind", "nverts", "exp_nverts", "write_error", "iface")})
    ctx.sample({k: recs[3][k] for k in ("kind", "nverts", "exp_nverts", "write_ok")})
    # the repository's example scripts: each must run and write; File.tla RightHanded / WholeSides / SidesTwice on the result
    shell_stores(ctx, rng)
    examples.judge_examples(ctx, "C11")
    ctx.exhaustive = False
