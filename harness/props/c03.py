"""C03 - cell count and expansion ratio obey the geometric-progression law.

Chop.tla enumerates exact progressions (integer cell sizes, rational ratios) with their five exact quantities
and off-boundary twins, and model-checks the closure loop; the harness evaluates Chop.calculate /
Grading.add_chop on every instance x 10 parameter pairs x scales over six decades and compares with the exact
values (count sets on ties), then decodes the realised first/last cell with blockMesh's progression law.
ChopTrace.tla validates the recorded sequence of relation applications of every call.
Harness-side continuation: the same law checks on random real-valued inputs (counts to 200, ratios in [0.5, 2],
the 1 +- 1e-7 neighbourhood), which TLC's 32-bit integers cannot enumerate.
"""

from __future__ import annotations

import itertools
import json
import math
import os
import random
from fractions import Fraction
from typing import Dict, List, Optional, Tuple

from ..common import Ctx, MachineryError
from ..tlc import run_tlc
from .grading import cfg_text

NAMES = ["count", "start_size", "end_size", "c2c_expansion", "total_expansion"]
PAIRS = list(itertools.combinations(NAMES, 2))


def decode(length: float, n: int, total: float) -> Tuple[float, float]:
    """blockMesh's law: first and last cell size of n cells with last/first = total on an edge of given length"""
    if n == 1:
        return length, length
    r = total ** (1.0 / (n - 1))
    if abs(r - 1) < 1e-12:
        first = length / n
    else:
        first = length * (1 - r) / (1 - r ** n)
    return first, first * total


class Recorder:
    """wraps the relation functions once; logs which relation was applied"""

    def __init__(self):
        from classy_blocks.grading.chop import ChopRelation

        self.events: List[str] = []
        for rel in ChopRelation.get_possible_combinations():
            if getattr(rel.function, "_verif_wrapped", False):
                rel.function._verif_sink = self  # type: ignore
                continue
            orig = rel.function

            def wrapped(length, a, b, _orig=orig):
                sink = wrapped._verif_sink  # type: ignore
                out = _orig(length, a, b)
                if sink is not None:
                    sink.events.append(_orig.__name__)
                return out

            wrapped._verif_wrapped = True  # type: ignore
            wrapped._verif_sink = self  # type: ignore
            wrapped.__name__ = orig.__name__
            rel.function = wrapped


def call_chop(kwargs: dict, length: float, rec: Recorder, inverted: bool = False):
    from classy_blocks.grading.chop import Chop

    rec.events = []
    try:
        chop = Chop(**kwargs)
        if inverted:
            chop.invert()
        count, total = chop.calculate(length)
        call_chop.last_results = dict(chop.results)
    except Exception as err:  # pylint: disable=broad-except
        return None, type(err).__name__, list(rec.events)
    return (count, total), None, list(rec.events)


call_chop.last_results = {}


def results_violations(kwargs: dict, length: float, results: dict) -> List[str]:
    """with count given the five resolved values are exactly determined: they must all obey the progression law"""
    if "count" not in kwargs:
        return []
    bad = []
    try:
        c = int(results["count"])
        r = float(results["c2c_expansion"])
        e = float(results["total_expansion"])
        s0 = float(results["start_size"])
        s1 = float(results["end_size"])
    except Exception:  # pylint: disable=broad-except
        return ["results-incomplete"]
    tol = 5e-6
    if abs(r - 1) < 1.5e-7:
        # inside the library's uniform-cells branch (|c2c - 1| <= 1e-7) sizes are L/count: off by up to count * 1e-7 / 2
        tol += c * 1.1e-7
    if abs(e / r ** (c - 1) - 1) > tol:
        bad.append("results-total-vs-c2c")
    first, last = decode(length, c, e)
    if abs(s0 / first - 1) > tol:
        bad.append("results-start_size")
    if abs(s1 / last - 1) > tol:
        bad.append("results-end_size")
    return bad


def law_violations(kwargs: dict, length: float, res, tie_ok: bool, tol_root: float = 2e-6) -> List[str]:
    """the statement of C03 evaluated on one result; returns names of violated clauses"""
    bad = []
    count, total = res
    if not (isinstance(count, (int,)) or (hasattr(count, "is_integer") and float(count).is_integer())):
        bad.append("count-not-integer")
        return bad
    count = int(count)
    if count < 1:
        bad.append("count-below-1")
        return bad
    if not (isinstance(total, (int, float)) or hasattr(total, "__float__")) or not math.isfinite(float(total)) or float(total) <= 0:
        bad.append("total-not-finite-positive")
        return bad
    total = float(total)
    has = lambda k: k in kwargs  # noqa: E731
    if has("count") and count != kwargs["count"]:
        bad.append("given-count-not-reproduced")
    if has("total_expansion") and abs(total / kwargs["total_expansion"] - 1) > 1e-9:
        bad.append("given-total-not-reproduced")
    if has("c2c_expansion") and not has("total_expansion"):
        want = kwargs["c2c_expansion"] ** (count - 1)
        if abs(total / want - 1) > 1e-9:
            bad.append("total-is-not-c2c-power")
    if has("start_size") and has("end_size") and abs(total / (kwargs["end_size"] / kwargs["start_size"]) - 1) > 1e-9:
        bad.append("total-is-not-end-over-start")

    # realised sizes
    def expansion_for(c: int) -> float:
        if has("c2c_expansion") and not has("total_expansion"):
            return kwargs["c2c_expansion"] ** (c - 1)
        return total

    first, last = decode(length, count, total)
    for key, val in (("start_size", first), ("end_size", last)):
        if not has(key):
            continue
        want = kwargs[key]
        if has("count"):
            if abs(val / want - 1) > tol_root:
                bad.append(f"given-{key}-not-realised")
        else:
            if val > want * (1 + tol_root):
                bad.append(f"{key}-coarser-than-requested")
            if count > 1:
                f2, l2 = decode(length, count - 1, expansion_for(count - 1))
                v2 = f2 if key == "start_size" else l2
                if v2 < want * (1 - tol_root) and not tie_ok:
                    bad.append(f"{key}-one-cell-too-many")
    return bad


def instance_values(inst: dict, scale: float) -> Dict[str, float]:
    return {"count": inst["n"], "start_size": inst["start"] * scale, "end_size": inst["end"] * scale,
            "c2c_expansion": inst["c2c"][0] / inst["c2c"][1], "total_expansion": inst["total"][0] / inst["total"][1]}


def sizes_fit(kwargs: dict, length: float) -> bool:
    """requested (explicit or implied) first and last cell sizes are clearly below the edge length;
    otherwise the request is at or beyond the documented limit 'size up to the length' and may be rejected"""
    s, e, t = kwargs.get("start_size"), kwargs.get("end_size"), kwargs.get("total_expansion")
    if s is not None and e is None and t is not None:
        e = s * t
    if e is not None and s is None and t is not None:
        s = e / t
    return all(x is None or x < 0.9 * length for x in (s, e))


def supported(pair, inst) -> Optional[str]:
    """None if the pair must be accepted for this instance, else the reason a rejection is legitimate"""
    n, p, q = inst["n"], inst["p"], inst["q"]
    if "c2c_expansion" in pair and "total_expansion" in pair and p == q:
        return "c2c=1 and total=1 do not determine a count"
    if n == 1:
        # a single cell: sizes equal the length; size >= length is documented to be rejected
        if "start_size" in pair or "end_size" in pair:
            return "size equals the whole length"
        if "total_expansion" in pair and "count" in pair:
            return "count 1 leaves no ratio to derive"
    return None


def check_instances(ctx: Ctx, insts: List[dict], rec: Recorder, rng: random.Random, traces: List[dict]) -> None:
    scales = [1e-3, 1.0, 37.5, 1e3]
    for inst in insts:
        n = inst["n"]
        for scale in (scales if ctx.tier == "thorough" else [rng.choice(scales)]):
            vals = instance_values(inst, scale)
            for pair in PAIRS:
                kwargs = {k: vals[k] for k in pair}
                # sizes counted from the end of the edge need the twin that is shortened at the start
                tw = inst["twinsE"] if ("end_size" in pair and "start_size" not in pair) else inst["twins"]
                lengths = [("exact", inst["length"] * scale)] + [(f"twin{t + 1}", tw[t][0] / tw[t][1] * scale) for t in range(3)]
                for tag, length in (lengths if "count" not in pair else lengths[:1]):
                    if tag != "exact" and ("total_expansion" in pair) and ("c2c_expansion" in pair):
                        continue
                    res, err, events = call_chop(kwargs, length, rec)
                    key = f"{pair[0]}+{pair[1]}:{'r=1' if inst['p'] == inst['q'] else ('r<1' if inst['p'] < inst['q'] else 'r>1')}:{tag[:4]}"
                    if n <= 2 and "count" not in pair:
                        key += ":fewer-than-3-cells"
                    ctx.evaluated(f"{inst['a']},{inst['p']},{inst['q']},{n},{pair},{tag}")
                    traces.append({"id": len(traces) + 1, "given": list(pair), "events": events, "ok": err is None})
                    why = supported(pair, inst)
                    if why is None and not sizes_fit(kwargs, length):
                        why = "a requested size reaches the edge length"
                    replay = {"instance": inst, "scale": scale, "kwargs": kwargs, "length": length, "result": res, "error": err}
                    if err is not None:
                        if why is None:
                            ctx.violation(f"valid-input-rejected:{key}", f"{kwargs} on length {length} raised {err}", replay)
                        continue
                    # expected count from the specification
                    count = int(res[0])
                    if "count" in pair:
                        allowed = {n}
                    elif "c2c_expansion" in pair and "total_expansion" in pair:
                        allowed = {n - 1, n}
                    elif tag == "exact":
                        allowed = {n, n + 1}
                    elif "total_expansion" in pair or ("start_size" in pair and "end_size" in pair):
                        allowed = None      # fixed total on a shorter edge: no closed form; the law below decides
                    else:
                        allowed = {n}
                    if why is None and allowed is not None and count not in allowed:
                        ctx.violation(f"wrong-count:{key}", f"{kwargs} on length {length}: count {count}, exact instance allows {sorted(allowed)}", replay)
                        continue
                    if why is None:
                        for clause in law_violations(kwargs, length, res, tie_ok=(tag == "exact")) + \
                                results_violations(kwargs, length, call_chop.last_results):
                            ctx.violation(f"law:{clause}:{key}", f"{kwargs} on length {length} -> {res}: {clause}", replay)
                    # reversal: same count, reciprocal expansion (off ties only)
                    both_ratios = "c2c_expansion" in pair and "total_expansion" in pair
                    if why is None and ("count" in pair or tag != "exact" or both_ratios) and allowed is not None:
                        res2, err2, _ = call_chop(kwargs, length, rec, inverted=True)
                        # two ratios: the exact instance sits on the rounding tie of log(total)/log(c2c), either side is fine
                        same_count = int(res2[0]) in allowed if (both_ratios and err2 is None) else (err2 is None and int(res2[0]) == count)
                        if err2 is not None:
                            ctx.violation(f"invert-rejected:{key}", f"inverted {kwargs} raised {err2}", replay)
                        elif not same_count or abs(float(res2[1]) * float(res[1]) - 1) > 1e-6:
                            ctx.violation(f"invert:{key}", f"{kwargs}: ({res}) inverted gives ({res2})", replay)
        ctx.sample({"a": inst["a"], "p": inst["p"], "q": inst["q"], "n": n, "length": inst["length"]})


def random_continuation(ctx: Ctx, rec: Recorder, rng: random.Random, traces: List[dict], n: int) -> None:
    """the same law on real-valued inputs TLC cannot enumerate (stated limit of the technique)"""
    for _ in range(n):
        length = 10 ** rng.uniform(-3, 3)
        count = rng.choice([1, 2, 3, 5, 10, 37, 100, 200, rng.randint(1, 200)])
        mode = rng.random()
        if mode < 0.25:
            r = 1 + rng.choice([-1, 1]) * 10 ** rng.uniform(-9, -2.2)   # around the branch switch at 1 +- 1e-7
        elif mode < 0.35:
            r = 1.0
        else:
            r = rng.uniform(0.5, 2.0) ** (1.0 / max(1, count - 1)) if rng.random() < 0.5 else rng.uniform(0.5, 2.0)
        if count > 1 and abs(math.log(r)) * (count - 1) > math.log(1e4):
            r = math.exp(math.copysign(math.log(1e4) / (count - 1), math.log(r)))
        total = r ** (count - 1)
        first = length / count if abs(r - 1) < 1e-13 else length * (1 - r) / (1 - r ** count)
        if first < 1e-4 * length * 0.999:
            continue
        vals = {"count": count, "start_size": first, "end_size": first * total, "c2c_expansion": r, "total_expansion": total}
        # shorten the edge by a fraction of the last cell so that derived counts are off their integer boundary
        theta = rng.uniform(0.1, 0.9)
        for pair in PAIRS:
            kwargs = {k: vals[k] for k in pair}
            if "count" in pair:
                L = length
            elif "end_size" in pair and "start_size" not in pair:
                L = length - theta * vals["start_size"] if count > 1 else length * 1.0
            else:
                L = length - theta * vals["end_size"] if count > 1 else length * 1.0
            if count == 1 and ("start_size" in pair or "end_size" in pair or "total_expansion" in pair):
                continue
            if "c2c_expansion" in pair and "total_expansion" in pair:
                if abs(r - 1) < 1e-4:
                    continue
                kwargs["total_expansion"] = total * r ** 0.5      # off the integer boundary of log(total)/log(c2c)
            if "c2c_expansion" not in pair and "count" not in pair and abs(total - 1) < 1e-6:
                continue   # total ~ 1 without count: uniform cells, count = L/size boundary handled by exact instances
            if not sizes_fit(kwargs, L):
                continue
            res, err, events = call_chop(kwargs, L, rec)
            ctx.evaluated()
            traces.append({"id": len(traces) + 1, "given": list(pair), "events": events, "ok": err is None})
            regime = "near1" if abs(r - 1) < 1e-4 else ("r<1" if r < 1 else "r>1")
            key = f"{pair[0]}+{pair[1]}:{regime}:real"
            if count <= 2 and "count" not in pair:
                key += ":fewer-than-3-cells"
            replay = {"kwargs": kwargs, "length": L, "result": res, "error": err}
            if err is not None:
                ctx.violation(f"valid-input-rejected:{key}", f"{kwargs} on length {L} raised {err}", replay)
                continue
            if "c2c_expansion" in pair and "total_expansion" in pair:
                if int(res[0]) != count:
                    ctx.violation(f"wrong-count:{key}", f"{kwargs}: count {res[0]} expected {count}", replay)
                continue
            tol = 2e-6 if abs(r - 1) > 1e-6 else 1e-5
            for clause in law_violations(kwargs, L, res, tie_ok=False, tol_root=tol) + results_violations(kwargs, L, call_chop.last_results):
                ctx.violation(f"law:{clause}:{key}", f"{kwargs} on length {L} -> {res}: {clause}", replay)


REJECT = [
    ("size-above-length", dict(count=4, start_size=2.0), 1.0),
    ("size-equals-length", dict(count=4, start_size=1.0), 1.0),
    ("count1-total-not-1", dict(count=1, total_expansion=2.0), 1.0),
    ("c2c1-total-not-1", dict(c2c_expansion=1.0, total_expansion=2.0), 1.0),
    ("negative-start", dict(start_size=-0.1, c2c_expansion=1.1), 1.0),
    ("zero-start", dict(start_size=0.0, count=3), 1.0),
    ("negative-end", dict(end_size=-0.1, count=3), 1.0),
    ("zero-length", dict(count=3, c2c_expansion=1.1), 0.0),
    ("negative-length", dict(start_size=0.1, end_size=0.2), -1.0),
    ("zero-c2c", dict(start_size=0.1, c2c_expansion=0.0), 1.0),
    ("zero-total", dict(start_size=0.1, total_expansion=0.0), 1.0),
    # cells shrinking by a tenth from 0.1 on never add up to more than 0.1 / (1 - 0.9) = 1: no count fills a longer edge
    ("beyond-series-limit-1.2", dict(start_size=0.1, c2c_expansion=0.9), 1.2),
    ("beyond-series-limit-1.5", dict(start_size=0.1, c2c_expansion=0.9), 1.5),
    ("beyond-series-limit-1.9", dict(start_size=0.1, c2c_expansion=0.9), 1.9),
    ("beyond-series-limit-5", dict(start_size=0.1, c2c_expansion=0.9), 5.0),
    ("beyond-series-limit-small", dict(start_size=0.002, c2c_expansion=0.8), 0.013),
]


def rejections(ctx: Ctx, rec: Recorder) -> None:
    for name, kwargs, length in REJECT:
        res, err, _ = call_chop(kwargs, length, rec)
        ctx.evaluated(f"reject:{name}")
        if err is None:
            count, total = res
            finite = isinstance(total, (int, float)) and math.isfinite(float(total)) and float(total) > 0 and int(count) >= 1
            # an unrealisable set must not yield a grading at all
            ctx.violation(f"unrealisable-accepted:{name}", f"{kwargs} on length {length} accepted with result {res} (finite={finite})",
                          {"kwargs": kwargs, "length": length, "result": res})


def grading_level(ctx: Ctx, insts: List[dict], rng: random.Random) -> None:
    """Grading.add_chop / Grading.inverted: specification rows and their reversal"""
    from classy_blocks.grading.chop import Chop
    from classy_blocks.grading.grading import Grading

    for inst in rng.sample(insts, min(len(insts), 60)):
        if inst["n"] < 2:
            continue
        vals = instance_values(inst, 1.0)
        g = Grading(float(inst["length"]) * 2)
        try:
            g.add_chop(Chop(length_ratio=0.5, count=vals["count"], c2c_expansion=vals["c2c_expansion"]))
            g.add_chop(Chop(length_ratio=0.5, count=vals["count"] + 1, total_expansion=1 / vals["total_expansion"]))
            spec = [list(s) for s in g.specification]
            inv = [list(s) for s in g.inverted.specification]
        except Exception as err:  # pylint: disable=broad-except
            ctx.violation("grading:add_chop-raises", f"two-section grading raised {type(err).__name__}", {"instance": inst})
            continue
        ctx.evaluated()
        ok = (len(spec) == 2 and spec[0][1] == inst["n"] and spec[1][1] == inst["n"] + 1
              and abs(spec[0][2] / vals["total_expansion"] - 1) < 1e-9 and abs(spec[1][2] * vals["total_expansion"] - 1) < 1e-9)
        if not ok:
            ctx.violation("grading:specification", f"specification {spec} does not reproduce the chops", {"instance": inst, "spec": spec})
        okinv = (len(inv) == 2 and inv[0][1] == spec[1][1] and inv[1][1] == spec[0][1] and abs(inv[0][2] * spec[1][2] - 1) < 1e-9
                 and abs(inv[1][2] * spec[0][2] - 1) < 1e-9 and abs(inv[0][0] - spec[1][0]) < 1e-12)
        if not okinv:
            ctx.violation("grading:inverted", f"inverted {inv} is not the reversed, reciprocal {spec}", {"instance": inst, "spec": spec, "inv": inv})
        # Chop.tla ReverseLaw: Rev(Rev(i)) = i, and reading a grading backwards does not change it - the original keeps its
        # sections, a second reading gives the same answer, the reversed reversed is the original
        try:
            after = [list(s) for s in g.specification]
            inv2 = [list(s) for s in g.inverted.specification]
            back = [list(s) for s in g.inverted.inverted.specification]
        except Exception as err:  # pylint: disable=broad-except
            ctx.violation("grading:inverted-raises", f"reading a grading backwards twice raised {type(err).__name__}", {"instance": inst})
            continue
        close = lambda a, b: len(a) == len(b) and all(abs(x - y) <= 1e-9 * max(1.0, abs(y)) for r1, r2 in zip(a, b) for x, y in zip(r1, r2))  # noqa: E731
        if not close(after, spec):
            ctx.violation("grading:inverted-modifies-original", f"taking .inverted changed the grading from {spec} to {after}", {"instance": inst})
        elif not close(inv2, inv):
            ctx.violation("grading:inverted-not-repeatable", f"a second .inverted gives {inv2}, the first gave {inv}", {"instance": inst})
        elif not close(back, spec):
            ctx.violation("grading:inverted-twice", f"inverted.inverted {back} is not the original {spec}", {"instance": inst})


def run(ctx: Ctx) -> None:
    ctx.rule = ("instances = exact geometric progressions (a,p,q,n) enumerated by Chop.tla x 10 parameter pairs x "
                "{exact length, 3 off-boundary twins} x scale; plus random real-valued continuation; non-trivial = n >= 2; "
                "distinct by (a,p,q,n,pair,length tag)")
    consts = {"MaxA": "2" if ctx.tier == "quick" else "3", "MaxP": "3" if ctx.tier == "quick" else "4",
              "MaxN": "7" if ctx.tier == "quick" else "9"}
    text = cfg_text("Spec", consts, ["ClosureComplete", "ClosureShort", "SumLaw", "EndLaw", "TwinLaw", "ReverseLaw"], constraints=["Emit"])
    res = run_tlc("Chop", "chop.cfg", cfg_text=text, workers=1, timeout=600)
    ctx.add_tlc(res)
    insts = res.records
    if len(insts) < 10:
        raise MachineryError("Chop.tla emitted too few instances")
    ctx.exhaustive = False
    rng = random.Random(ctx.seed + 3)
    rec = Recorder()
    traces: List[dict] = []
    check_instances(ctx, insts, rec, rng, traces)
    random_continuation(ctx, rec, rng, traces, 400 if ctx.tier == "quick" else 6000)
    rejections(ctx, rec)
    grading_level(ctx, insts, rng)
    # trace validation of the closure loop
    sample = traces if len(traces) <= 4000 else rng.sample(traces, 4000)
    for i, t in enumerate(sample):
        t["id"] = i + 1
    path = os.path.join(ctx.tmp, "chop_traces.json")
    with open(path, "w", encoding="utf-8") as f:
        json.dump({"recs": sample}, f)
    res = run_tlc("ChopTrace", "ChopTrace.cfg", env={"VERIF_TRACE_FILE": path}, workers=1, timeout=600)
    ctx.add_tlc(res)
    verdicts = {v["id"]: v["verdict"] for v in res.records}
    if len(verdicts) != len(sample):
        raise MachineryError("ChopTrace judged too few traces")
    for t in sample:
        ctx.validated()
        if verdicts[t["id"]] != "accepted":
            ctx.violation(f"closure:{verdicts[t['id']]}:{'+'.join(t['given'])}", f"closure trace {t['events']} from {t['given']} rejected", t)
