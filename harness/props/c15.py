"""C15 - smoothing moves only free interior points, to their neighbours' average.

Smooth.tla defines, from the cells alone, which points are boundary points and which are edge-neighbours, for
structured quad/hex grids and unstructured O-grids, and emits every topology.  The harness builds a MappedSketch
or a Mesh of lofts on each (random similarity, jittered interior points, random fixed sets by index or by
position), runs SketchSmoother / MeshSmoother, and records which points moved and which free points are not at
the average of their (specification-given) neighbours; TLC (Smooth.tla, JSpec) judges every record against its
own boundary/neighbour relations.  Exact one-sweep averages, regular-lattice recovery and copy-back consistency
are compared directly.
"""

from __future__ import annotations

import json
import os
import random
from typing import Dict, List

from ..common import Ctx, MachineryError
from ..renderlib import vadd, vdist, vmul, vnorm
from ..tlc import run_tlc
from .c08 import similarity
from .grading import cfg_text


def build(topo: dict, positions: List[List[float]], merged: bool = False, rng=None):
    """the sketch / mesh on the topology; merged: the quad map is put together from two pieces (MappedSketch.merge), each with
    a position list of its own - the points along the seam are given twice and must become one point of the map"""
    import classy_blocks as cb
    import numpy as np

    cells = topo["cells"]
    if topo["dim"] == 2 and merged and len(cells) > 1:
        half = len(cells) // 2
        pieces = []
        for part in (cells[:half], cells[half:]):
            used = sorted({v for c in part for v in c})
            rng.shuffle(used)
            local = {v: i for i, v in enumerate(used)}
            pieces.append(cb.MappedSketch(np.array([positions[v] for v in used]), [[local[v] for v in c] for c in part]))
        sketch = pieces[0]
        sketch.merge(pieces[1])
        merged_pos = [list(p) for p in sketch.positions]
        sketch.spec_ids = [min(range(len(positions)), key=lambda v: vdist(positions[v], p)) for p in merged_pos]
        return sketch
    if topo["dim"] == 2:
        sketch = cb.MappedSketch(np.array(positions), [list(c) for c in cells])
        return sketch
    mesh = cb.Mesh()
    for c in cells:
        pts = [positions[v] for v in c]
        op = cb.Loft(cb.Face(pts[:4]), cb.Face(pts[4:]))
        mesh.add(op)
    mesh.assemble()
    return mesh


def current_positions(obj, topo: dict, npoints: int) -> Dict[int, List[List[float]]]:
    """every copy of every point held by the object (faces / vertices), by specification vertex id"""
    out: Dict[int, List[List[float]]] = {v: [] for v in range(npoints)}
    if topo["dim"] == 2:
        ids = getattr(obj, "spec_ids", None)
        for quad, face in zip(obj.indexes, obj.faces):
            for v, p in zip(quad, face.point_array):
                out[v if ids is None else ids[v]].append([float(x) for x in p])
    else:
        for cell, block in zip(topo["cells"], obj.blocks):
            for v, vertex in zip(cell, block.vertices):
                out[v].append([float(x) for x in vertex.position])
    return out


def run_case(ctx: Ctx, topo: dict, rng: random.Random, mode: str, recs: list, meta: dict) -> None:
    import classy_blocks as cb
    import numpy as np

    point, vector, scale = similarity(rng)
    # TLA+ functions over 0..N-1 arrive as JSON objects keyed by strings
    coords = topo["coords"]
    coords = {int(k): v for k, v in coords.items()} if isinstance(coords, dict) else dict(enumerate(coords))
    npts = len(coords)
    base = [point(coords[v]) for v in range(npts)]
    if mode.startswith("renumbered"):
        # the same blocks with their corners numbered otherwise (one rotation of the hexahedron applied to every block): which
        # points are joined by a block edge does not depend on how a block lists its corners
        if topo["dim"] != 3:
            return
        from .. import hexref
        rot = hexref.SYMS[hexref.ROT_IDX[int(mode.split(":")[1])]]
        topo = dict(topo, cells=[[c[rot[k]] for k in range(8)] for c in topo["cells"]])
        mode = "all-free"
    merged = mode == "merged"
    if merged:
        if topo["dim"] != 2 or len(topo["cells"]) < 2:
            return
        mode = "all-free"
    far = mode == "far"
    if far:
        # the same topology thousands of cell sizes away from the origin, jittered by a hundredth of a cell: what
        # has to be smoothed is small only RELATIVE to the coordinates
        mode = "all-free"
        base = [[p[0] + 4000.0 * scale, p[1] + 7000.0 * scale, p[2] - 2500.0 * scale] for p in base]
    boundary = set(topo["boundary"])
    neigh = {int(k): v for k, v in topo["neigh"].items()} if isinstance(topo["neigh"], dict) else {i: v for i, v in enumerate(topo["neigh"])}
    interior = [v for v in range(npts) if v not in boundary]
    if not interior:
        return
    size = 2 * scale
    pos = [list(p) for p in base]
    jittered = []
    if mode != "regular-start":
        for v in interior:
            d = vector([rng.uniform(-1, 1) for _ in range(3)])
            if topo["dim"] == 2:
                # keep the sketch planar: jitter in the sketch plane only
                ex, ey = vector([1, 0, 0]), vector([0, 1, 0])
                d = vadd(vmul(ex, rng.uniform(-1, 1)), vmul(ey, rng.uniform(-1, 1)))
            pos[v] = vadd(pos[v], vmul(d, (0.008 if far else 0.3) * size))
            jittered.append(v)
    fixed: List[int] = []
    fix_by = "none"
    if mode == "fixed" and len(interior) > 1:
        fixed = rng.sample(interior, rng.randint(1, max(1, len(interior) // 2)))
        fix_by = rng.choice(["index", "position"])
    if mode == "single-free":
        free_one = rng.choice(interior)
        fixed = [v for v in interior if v != free_one]
        fix_by = "index"
    try:
        obj = build(topo, pos, merged, rng)
        if merged and len(obj.positions) != npts:
            ctx.violation(f"merge:positions:{topo['topo']['kind']}", f"a quad map of {npts} points merged from two pieces has {len(obj.positions)} positions",
                          {"topo": topo["topo"]})
            return
        smoother = cb.SketchSmoother(obj) if topo["dim"] == 2 else cb.MeshSmoother(obj)
        if topo["dim"] == 3:
            # the mesh numbers its vertices in order of first appearance: map specification ids -> mesh indexes
            idmap = {}
            for cell, block in zip(topo["cells"], obj.blocks):
                for v, vertex in zip(cell, block.vertices):
                    idmap[v] = vertex.index
        elif merged:
            idmap = {sid: i for i, sid in enumerate(obj.spec_ids)}
        else:
            idmap = {v: v for v in range(npts)}
        if fixed:
            if fix_by == "index":
                smoother.fix_indexes([idmap[v] for v in fixed])
            else:
                smoother.fix_points(np.array([pos[v] for v in fixed]))
        iterations = 1 if mode == "single-free" else 300
        smoother.smooth(iterations)
    except Exception as err:  # pylint: disable=broad-except
        ctx.violation(f"smooth-raises:{topo['topo']['kind']}:{type(err).__name__}", f"smoothing raised {type(err).__name__}: {err}",
                      {"topo": topo["topo"], "mode": mode})
        return
    ctx.evaluated(f"{topo['topo']}:{mode}:{fix_by}:{sorted(fixed)}")
    after = current_positions(obj, topo, npts)
    key = f"{topo['topo']['kind']}:{mode}" + (":far-from-origin" if far else "") + (":merged-from-pieces" if merged else "")
    # copy-back: every holder of a point has the same position
    for v, copies in after.items():
        if any(vdist(c, copies[0]) > 1e-12 * max(1.0, vnorm(copies[0])) for c in copies[1:]):
            ctx.violation(f"copy-back-inconsistent:{key}", f"point {v} has different positions in the faces/blocks sharing it",
                          {"topo": topo["topo"], "mode": mode})
            return
    now = {v: after[v][0] for v in after if after[v]}
    moved = [v for v in now if now[v] != [float(x) for x in pos[v]]]
    tol = 1e-6 * size
    stuck = []
    for v in interior:
        avg = [sum(now[w][i] for w in neigh[v]) / len(neigh[v]) for i in range(3)]
        if vdist(now[v], avg) > (1e-12 * size if mode == "single-free" else tol):
            stuck.append(v)
    rid = len(recs) + 1
    recs.append({"id": rid, "topo": topo["topo"], "fixed": sorted(fixed), "moved": sorted(moved), "not_at_average": sorted(stuck),
                 "jittered": sorted(v for v in jittered if mode != "single-free" or v not in fixed), "converged_expected": True})
    meta[rid] = {"key": key, "fix_by": fix_by, "scale": scale}
    # a regular boundary yields the regular lattice
    if mode in ("all-free", "regular-start") and topo["topo"]["kind"] in ("quadgrid", "hexgrid"):
        off = max(vdist(now[v], base[v]) for v in interior)
        if off > 1e-5 * size:
            ctx.violation(f"not-regular-lattice:{key}", f"interior points end {off / size:.3g} sizes away from the regular lattice", {"topo": topo["topo"]})


def merged_maps(ctx: Ctx, rng: random.Random) -> None:
    """Merge.tla: TLC checks Unique / Covers / Faithful / Stable over all lists of pieces and emits every finished merge with
    the expected position list and quads; each is replayed into MappedSketch.merge (one sketch, or a list of sketches) under
    a random similarity and compared index by index; every face must hold the points its quad refers to."""
    import classy_blocks as cb
    import numpy as np

    consts = {"MaxPieces": "2", "Cols": "{0, 1, 2}" if ctx.tier == "quick" else "{0, 1, 2, 3}", "Rows": "{0, 1}"}
    res = run_tlc("Merge", "merge.cfg", cfg_text=cfg_text("Spec", consts, ["Unique", "Covers", "Faithful"], ["Stable"], constraints=["Emit"]),
                  workers=1, timeout=900)
    ctx.add_tlc(res)
    cases = [r for r in res.records if "others" in r]
    if len(cases) < 50:
        raise MachineryError("Merge.tla emitted too few merges")
    rng.shuffle(cases)
    for case in cases[: (150 if ctx.tier == "quick" else 3000)]:
        point, _vector, scale = similarity(rng)

        def xyz(pid):
            return point([float(pid % 10), float(pid // 10), 0.0])

        def sketch(piece):
            return cb.MappedSketch(np.array([xyz(p) for p in piece["pos"]]), [[i - 1 for i in q] for q in piece["quads"]])
        rep = {"first": case["first"], "others": case["others"]}
        try:
            acc = sketch(case["first"])
            rest = [sketch(o) for o in case["others"]]
            if len(rest) == 1 and rng.random() < 0.5:
                acc.merge(rest[0])
            else:
                acc.merge(rest)
            got_pos = [list(p) for p in acc.positions]
            got_quads = [[int(i) for i in q] for q in acc.indexes]
            held = [[list(p) for p in face.point_array] for face in acc.faces]
        except Exception as err:  # pylint: disable=broad-except
            ctx.violation(f"merge:raises:{type(err).__name__}", f"MappedSketch.merge raised {err}", rep)
            continue
        ctx.evaluated(f"merge:{case['first']['pos']}:{[o['pos'] for o in case['others']]}")
        ctx.validated()
        want_pos = [xyz(p) for p in case["pos"]]
        want_quads = [[i - 1 for i in q] for q in case["quads"]]
        tol = 1e-9 * max(1.0, scale)
        if len(got_pos) != len(want_pos) or any(vdist(a, b) > tol for a, b in zip(got_pos, want_pos)):
            ctx.violation("merge:positions", f"merged position list has {len(got_pos)} entries / differs from Merge.tla's ({len(want_pos)})", rep)
        elif got_quads != want_quads:
            ctx.violation("merge:quads", "the quads of the merged sketch differ from Merge.tla's", dict(rep, got=got_quads, want=want_quads))
        elif len(held) != len(want_quads) or any(vdist(held[j][k], want_pos[want_quads[j][k]]) > tol for j in range(len(held)) for k in range(4)):
            ctx.violation("merge:faces", "a face of the merged sketch does not hold the points its quad refers to", rep)


def run(ctx: Ctx) -> None:
    ctx.rule = ("topologies = structured quad grids, two O-grids and structured hex grids emitted by Smooth.tla; per topology several "
                "runs (all free / random fixed sets by index or position / single free point with one sweep / regular start) under "
                "random similarities; non-trivial = at least one interior point; distinct by (topology, mode, fixed set)")
    consts = {"MaxQ": "4" if ctx.tier == "quick" else "5", "MaxH": "2" if ctx.tier == "quick" else "3"}
    res = run_tlc("Smooth", "smooth_gen.cfg", cfg_text=cfg_text("GenSpec", consts, ["ValenceOK"], constraints=["GenEmit"]), workers=1, timeout=900)
    ctx.add_tlc(res)
    topos = [r for r in res.records if "topo" in r]
    if len(topos) < 5:
        raise MachineryError("Smooth.tla emitted too few topologies")
    rng = random.Random(ctx.seed + 15)
    recs: List[dict] = []
    meta: Dict[int, dict] = {}
    reps = 3 if ctx.tier == "quick" else 10
    for topo in topos:
        for mode in ("all-free", "fixed", "single-free", "regular-start", "far", "merged"):
            for _ in range(reps if mode in ("fixed", "single-free") else 1):
                run_case(ctx, topo, rng, mode, recs, meta)
        if topo["dim"] == 3:
            which = range(24) if (topo["topo"]["kind"] == "hexring" or ctx.tier == "thorough") else rng.sample(range(24), 3)
            for r in which:
                run_case(ctx, topo, rng, f"renumbered:{r}", recs, meta)
    if not recs:
        raise MachineryError("no smoothing case could be run")
    path = os.path.join(ctx.tmp, "smooth.json")
    with open(path, "w", encoding="utf-8") as f:
        json.dump({"recs": recs}, f)
    text = cfg_text("JSpec", consts, [], constraints=["JEmit"])
    res = run_tlc("Smooth", "smooth_judge.cfg", cfg_text=text, env={"VERIF_TRACE_FILE": path}, workers=1, timeout=900)
    ctx.add_tlc(res)
    verdicts = {v["id"]: v["fails"] for v in res.records if "id" in v}
    if len(verdicts) != len(recs):
        raise MachineryError(f"Smooth judge returned {len(verdicts)} of {len(recs)} verdicts")
    for r in recs:
        ctx.validated()
        for c in verdicts[r["id"]]:
            ctx.violation(f"smooth:{c}:{meta[r['id']]['key']}:fix-by-{meta[r['id']]['fix_by']}", f"Smooth.tla clause {c} rejected the run", {"record": r, "meta": meta[r["id"]]})
    ctx.sample({k: recs[0][k] for k in ("topo", "fixed", "moved")})
    merged_maps(ctx, rng)
    ctx.exhaustive = False
