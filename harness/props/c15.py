"""C15 - smoothing moves only free interior points, to their neighbours' average.

Smooth.tla defines, from the cells alone, which points are boundary points and which are edge-neighbours, for
structured quad/hex grids and unstructured O-grids, and emits every topology.  The harness builds a MappedSketch
or a Mesh of lofts on each (random similarity, jittered interior points, random fixed sets by index or by
position), runs SketchSmoother / MeshSmoother, and records which points moved and which free points are not at
the average of their (specification-given) neighbours; TLC (Smooth.tla, JSpec) judges every record against its
own boundary/neighbour relations.  Exact one-sweep averages, regular-lattice recovery and copy-back consistency
are compared directly.
"""

from __future__ import annotations

import json
import os
import random
from typing import Dict, List

from ..common import Ctx, MachineryError
from ..renderlib import vadd, vdist, vmul, vnorm
from ..tlc import run_tlc
from .c08 import similarity
from .grading import cfg_text


def build(topo: dict, positions: List[List[float]]):
    """returns (kind, object, smoother factory, getter of current positions by vertex id)"""
    import classy_blocks as cb
    import numpy as np

    cells = topo["cells"]
    if topo["dim"] == 2:
        sketch = cb.MappedSketch(np.array(positions), [list(c) for c in cells])
        return sketch
    mesh = cb.Mesh()
    for c in cells:
        pts = [positions[v] for v in c]
        op = cb.Loft(cb.Face(pts[:4]), cb.Face(pts[4:]))
        mesh.add(op)
    mesh.assemble()
    return mesh


def current_positions(obj, topo: dict, npoints: int) -> Dict[int, List[List[float]]]:
    """every copy of every point held by the object (faces / vertices), by specification vertex id"""
    out: Dict[int, List[List[float]]] = {v: [] for v in range(npoints)}
    if topo["dim"] == 2:
        for quad, face in zip(obj.indexes, obj.faces):
            for v, p in zip(quad, face.point_array):
                out[v].append([float(x) for x in p])
    else:
        for cell, block in zip(topo["cells"], obj.blocks):
            for v, vertex in zip(cell, block.vertices):
                out[v].append([float(x) for x in vertex.position])
    return out


def run_case(ctx: Ctx, topo: dict, rng: random.Random, mode: str, recs: list, meta: dict) -> None:
    import classy_blocks as cb
    import numpy as np

    point, vector, scale = similarity(rng)
    # TLA+ functions over 0..N-1 arrive as JSON objects keyed by strings
    coords = topo["coords"]
    coords = {int(k): v for k, v in coords.items()} if isinstance(coords, dict) else dict(enumerate(coords))
    npts = len(coords)
    base = [point(coords[v]) for v in range(npts)]
    far = mode == "far"
    if far:
        # the same topology thousands of cell sizes away from the origin, jittered by a hundredth of a cell: what
        # has to be smoothed is small only RELATIVE to the coordinates
        mode = "all-free"
        base = [[p[0] + 4000.0 * scale, p[1] + 7000.0 * scale, p[2] - 2500.0 * scale] for p in base]
    boundary = set(topo["boundary"])
    neigh = {int(k): v for k, v in topo["neigh"].items()} if isinstance(topo["neigh"], dict) else {i: v for i, v in enumerate(topo["neigh"])}
    interior = [v for v in range(npts) if v not in boundary]
    if not interior:
        return
    size = 2 * scale
    pos = [list(p) for p in base]
    jittered = []
    if mode != "regular-start":
        for v in interior:
            d = vector([rng.uniform(-1, 1) for _ in range(3)])
            if topo["dim"] == 2:
                # keep the sketch planar: jitter in the sketch plane only
                ex, ey = vector([1, 0, 0]), vector([0, 1, 0])
                d = vadd(vmul(ex, rng.uniform(-1, 1)), vmul(ey, rng.uniform(-1, 1)))
            pos[v] = vadd(pos[v], vmul(d, (0.008 if far else 0.3) * size))
            jittered.append(v)
    fixed: List[int] = []
    fix_by = "none"
    if mode == "fixed" and len(interior) > 1:
        fixed = rng.sample(interior, rng.randint(1, max(1, len(interior) // 2)))
        fix_by = rng.choice(["index", "position"])
    if mode == "single-free":
        free_one = rng.choice(interior)
        fixed = [v for v in interior if v != free_one]
        fix_by = "index"
    try:
        obj = build(topo, pos)
        smoother = cb.SketchSmoother(obj) if topo["dim"] == 2 else cb.MeshSmoother(obj)
        if topo["dim"] == 3:
            # the mesh numbers its vertices in order of first appearance: map specification ids -> mesh indexes
            idmap = {}
            for cell, block in zip(topo["cells"], obj.blocks):
                for v, vertex in zip(cell, block.vertices):
                    idmap[v] = vertex.index
        else:
            idmap = {v: v for v in range(npts)}
        if fixed:
            if fix_by == "index":
                smoother.fix_indexes([idmap[v] for v in fixed])
            else:
                smoother.fix_points(np.array([pos[v] for v in fixed]))
        iterations = 1 if mode == "single-free" else 300
        smoother.smooth(iterations)
    except Exception as err:  # pylint: disable=broad-except
        ctx.violation(f"smooth-raises:{topo['topo']['kind']}:{type(err).__name__}", f"smoothing raised {type(err).__name__}: {err}",
                      {"topo": topo["topo"], "mode": mode})
        return
    ctx.evaluated(f"{topo['topo']}:{mode}:{fix_by}:{sorted(fixed)}")
    after = current_positions(obj, topo, npts)
    key = f"{topo['topo']['kind']}:{mode}" + (":far-from-origin" if far else "")
    # copy-back: every holder of a point has the same position
    for v, copies in after.items():
        if any(vdist(c, copies[0]) > 1e-12 * max(1.0, vnorm(copies[0])) for c in copies[1:]):
            ctx.violation(f"copy-back-inconsistent:{key}", f"point {v} has different positions in the faces/blocks sharing it",
                          {"topo": topo["topo"], "mode": mode})
            return
    now = {v: after[v][0] for v in after if after[v]}
    moved = [v for v in now if now[v] != [float(x) for x in pos[v]]]
    tol = 1e-6 * size
    stuck = []
    for v in interior:
        avg = [sum(now[w][i] for w in neigh[v]) / len(neigh[v]) for i in range(3)]
        if vdist(now[v], avg) > (1e-12 * size if mode == "single-free" else tol):
            stuck.append(v)
    rid = len(recs) + 1
    recs.append({"id": rid, "topo": topo["topo"], "fixed": sorted(fixed), "moved": sorted(moved), "not_at_average": sorted(stuck),
                 "jittered": sorted(v for v in jittered if mode != "single-free" or v not in fixed), "converged_expected": True})
    meta[rid] = {"key": key, "fix_by": fix_by, "scale": scale}
    # a regular boundary yields the regular lattice
    if mode in ("all-free", "regular-start") and topo["topo"]["kind"] in ("quadgrid", "hexgrid"):
        off = max(vdist(now[v], base[v]) for v in interior)
        if off > 1e-5 * size:
            ctx.violation(f"not-regular-lattice:{key}", f"interior points end {off / size:.3g} sizes away from the regular lattice", {"topo": topo["topo"]})


def run(ctx: Ctx) -> None:
    ctx.rule = ("topologies = structured quad grids, two O-grids and structured hex grids emitted by Smooth.tla; per topology several "
                "runs (all free / random fixed sets by index or position / single free point with one sweep / regular start) under "
                "random similarities; non-trivial = at least one interior point; distinct by (topology, mode, fixed set)")
    consts = {"MaxQ": "4" if ctx.tier == "quick" else "5", "MaxH": "2" if ctx.tier == "quick" else "3"}
    res = run_tlc("Smooth", "smooth_gen.cfg", cfg_text=cfg_text("GenSpec", consts, ["ValenceOK"], constraints=["GenEmit"]), workers=1, timeout=900)
    ctx.add_tlc(res)
    topos = [r for r in res.records if "topo" in r]
    if len(topos) < 5:
        raise MachineryError("Smooth.tla emitted too few topologies")
    rng = random.Random(ctx.seed + 15)
    recs: List[dict] = []
    meta: Dict[int, dict] = {}
    reps = 3 if ctx.tier == "quick" else 10
    for topo in topos:
        for mode in ("all-free", "fixed", "single-free", "regular-start", "far"):
            for _ in range(reps if mode in ("fixed", "single-free") else 1):
                run_case(ctx, topo, rng, mode, recs, meta)
    if not recs:
        raise MachineryError("no smoothing case could be run")
    path = os.path.join(ctx.tmp, "smooth.json")
    with open(path, "w", encoding="utf-8") as f:
        json.dump({"recs": recs}, f)
    text = cfg_text("JSpec", consts, [], constraints=["JEmit"])
    res = run_tlc("Smooth", "smooth_judge.cfg", cfg_text=text, env={"VERIF_TRACE_FILE": path}, workers=1, timeout=900)
    ctx.add_tlc(res)
    verdicts = {v["id"]: v["fails"] for v in res.records if "id" in v}
    if len(verdicts) != len(recs):
        raise MachineryError(f"Smooth judge returned {len(verdicts)} of {len(recs)} verdicts")
    for r in recs:
        ctx.validated()
        for c in verdicts[r["id"]]:
            ctx.violation(f"smooth:{c}:{meta[r['id']]['key']}:fix-by-{meta[r['id']]['fix_by']}", f"Smooth.tla clause {c} rejected the run", {"record": r, "meta": meta[r["id"]]})
    ctx.sample({k: recs[0][k] for k in ("topo", "fixed", "moved")})
    ctx.exhaustive = False
