"""C13 - optimization never worsens quality; only clamped vertices move, on their constraints.

Optimizer.tla models the clamp-by-clamp protocol with an adversarial minimiser (arbitrary probes, failures at
any probe, arbitrary quality function) and TLC checks it exhaustively (never worse, unclamped points still,
followers linked, nothing half-applied, backport).  The real MeshOptimizer / SketchOptimizer is then run on
small perturbed assemblies and sketches with clamps of several types and a link, with the real scipy methods
and with scripted minimisers that realise the model's behaviours (random probes, a last probe that is worse,
a failure in the middle); every optimize_clamp step is recorded through runtime wrappers and the run is
accepted or rejected by TLC (OptimizerJudge.tla).
"""

from __future__ import annotations

import json
import os
import random
from typing import Dict, List

from ..common import Ctx, MachineryError
from ..renderlib import vadd, vcross, vdist, vdot, vmul, vnorm, vsub
from ..tlc import run_tlc
from .c08 import similarity
from .grading import cfg_text


class Script:
    """replacement for scipy.optimize.minimize inside the optimizer module"""

    def __init__(self, mode: str, rng: random.Random, real):
        self.mode, self.rng, self.real = mode, rng, real
        self.last = None          # quality after the last evaluation, None if it raised

    def __call__(self, fun, x0, bounds=None, method=None, **kw):
        import numpy as np

        if self.mode == "real":
            return self.real(fun, x0, bounds=bounds, method=method, **kw)
        x0 = np.array(x0, dtype=float)
        n = self.rng.randint(1, 4)
        span = 0.15 * self.scale
        for i in range(n):
            step = np.array([self.rng.uniform(-span, span) for _ in x0])
            if self.mode == "scripted-worse" and i == n - 1:
                step = step * 12.0
            x = x0 + step
            if bounds is not None:
                x = np.array([min(max(v, b[0]), b[1]) for v, b in zip(x, bounds)])
            fun(x)
            if self.mode == "scripted-degenerate" and i == n - 1:
                raise ValueError("Degenerate Cell (scripted)")

        class R:
            pass
        r = R()
        r.x = x
        return r


def expected_follower(link, leader_now):
    """where the follower of a link has to be for the leader's present position - from the link's ORIGINAL pair of points
    and the harness' own maps (translation by the original offset / rotation about the axis by the angle the leader turned)"""
    import math

    from .c07 import rot as rot_own
    spec = getattr(link, "_verif_spec")
    l0, f0 = spec["l0"], spec["f0"]
    if spec["kind"] == "translation":
        return vadd(leader_now, vsub(f0, l0))
    if spec["kind"] == "symmetry":
        n = vmul(spec["axis"], 1.0 / vnorm(spec["axis"]))
        return vsub(list(leader_now), vmul(n, 2 * vdot(vsub(list(leader_now), spec["origin"]), n)))
    axis, origin = spec["axis"], spec["origin"]
    k = vmul(axis, 1.0 / vnorm(axis))

    def radial(p):
        rel = vsub(p, origin)
        return vsub(rel, vmul(k, vdot(rel, k)))
    a, b = radial(l0), radial(list(leader_now))
    angle = math.atan2(vdot(vcross(a, b), k), vdot(a, b))
    return rot_own(f0, angle, axis, origin)


def tag_link(link, kind, l0, f0, axis=None, origin=None):
    link._verif_spec = {"kind": kind, "l0": list(l0), "f0": list(f0), "axis": axis, "origin": origin}   # pylint: disable=protected-access
    return link


def rotation_scenario(rng: random.Random, force=(None, None), own_arrays=False):
    """2x2x2 lofts; the four edge-middle points of the bottom face are turned about the vertical axis through the face centre;
    one of them carries a RadialClamp, the opposite one (and sometimes the other two) follow through RotationLinks"""
    import classy_blocks as cb
    from .. import hexref
    from .c07 import rot as rot_own

    point, vector, scale = similarity(rng)
    grid = {(i, j, k): point([i, j, k]) for i in range(3) for j in range(3) for k in range(3)}
    centre, ez = point([1, 1, 0]), vector([0, 0, 1])
    twist = rng.choice([-1, 1]) * rng.uniform(0.25, 0.5)
    ring = [(1, 0, 0), (2, 1, 0), (1, 2, 0), (0, 1, 0)]
    for key in ring:
        grid[key] = rot_own(grid[key], twist, ez, centre)
    mesh = cb.Mesh()
    for i in range(2):
        for j in range(2):
            for k in range(2):
                pts = [grid[(i + c[0], j + c[1], k + c[2])] for c in hexref.XYZ]
                mesh.add(cb.Loft(cb.Face(pts[:4]), cb.Face(pts[4:])))
    mesh.assemble()
    lengths = [rng.uniform(0.3, 0.8), rng.uniform(1.2, 2.5)]
    # non-unit: shorter or longer than 1 (force = (bounded, short): the runs with the real minimiser are not left to chance)
    axis = vmul(ez, (rng.choice(lengths) if force[1] is None else lengths[0 if force[1] else 1]) / vnorm(ez))
    radius = vdist(grid[ring[0]], centre)
    start = list(grid[ring[0]])
    # half of the runs bound the travel along the circle (arc length from where the clamp was created) to less than the
    # way back to the untwisted position: the vertex ends against the bound, not beyond it
    bound = 0.4 * abs(twist) * radius if (rng.random() < 0.5 if force[0] is None else force[0]) else None
    clamps = [cb.RadialClamp(grid[ring[0]], centre, axis, [-bound, bound] if bound else None)]

    def on_circle(p, prm):
        import math
        rel = vsub(p, centre)
        k = vmul(ez, 1.0 / vnorm(ez))
        a, b = vsub(start, centre), rel
        arc = abs(math.atan2(vnorm(vcross(a, b)), vdot(a, b))) * radius
        return (abs(vdot(rel, k)) < 1e-6 * scale and abs(vnorm(rel) - radius) < 1e-6 * scale, bound is None or arc <= bound * (1 + 1e-6) + 1e-9 * scale)
    preds = [on_circle]
    links = []
    # the points of a link are handed over as plain lists, or as the position arrays of the mesh's own vertices (which the
    # optimizer moves in place when it copies its result back): the link keeps what it was given, not what becomes of it
    own = bool(own_arrays)

    def given(p):
        if not own:
            return p
        return min(mesh.vertices, key=lambda v: vdist(list(v.position), p)).position
    for key in ring[1:][: rng.choice([1, 2, 3])]:
        links.append(tag_link(cb.RotationLink(given(grid[ring[0]]), given(grid[key]), axis, centre), "rotation", list(grid[ring[0]]), list(grid[key]), axis, centre))
    return mesh, clamps, links, preds, scale


def mesh_scenario(rng: random.Random, full: bool = False):
    """2x2x2 lofts, interior points perturbed; returns (mesh, clamps, links, predicates, size)"""
    import classy_blocks as cb
    import numpy as np

    point, vector, scale = similarity(rng)
    grid = {}
    for i in range(3):
        for j in range(3):
            for k in range(3):
                grid[(i, j, k)] = point([i, j, k])
    centre_shift = vmul(vector([rng.uniform(-1, 1) for _ in range(3)]), 0.25 * scale)
    grid[(1, 1, 1)] = vadd(grid[(1, 1, 1)], centre_shift)
    ex, ey, ez = vector([1, 0, 0]), vector([0, 1, 0]), vector([0, 0, 1])
    # face centre on z=0 moved inside its plane, edge middle moved along its edge
    grid[(1, 1, 0)] = vadd(grid[(1, 1, 0)], vadd(vmul(ex, 0.2 * scale * rng.uniform(-1, 1)), vmul(ey, 0.2 * scale * rng.uniform(-1, 1))))
    grid[(1, 0, 0)] = vadd(grid[(1, 0, 0)], vmul(ex, 0.2 * scale * rng.uniform(-1, 1)))
    mesh = cb.Mesh()
    from .. import hexref
    for i in range(2):
        for j in range(2):
            for k in range(2):
                pts = [grid[(i + c[0], j + c[1], k + c[2])] for c in hexref.XYZ]
                mesh.add(cb.Loft(cb.Face(pts[:4]), cb.Face(pts[4:])))
    mesh.assemble()
    o = point([0, 0, 0])
    clamps, preds = [], []
    # full: every clamp kind and every link at once (so that each run mode meets the first and the last vertex as followers)
    kinds = ["free", "plane", "line"] if full else rng.sample(["free", "plane", "line"], rng.randint(1, 3))
    if "free" in kinds:
        clamps.append(cb.FreeClamp(grid[(1, 1, 1)]))
        preds.append(lambda p, prm: (True, True))
    if "plane" in kinds:
        clamps.append(cb.PlaneClamp(grid[(1, 1, 0)], o, vmul(ez, rng.uniform(0.5, 2))))
        preds.append(lambda p, prm: (abs(vdot(vsub(p, o), ez)) < 1e-6 * scale, True))
    if "line" in kinds:
        a, b = point([0, 0, 0]), point([2, 0, 0])
        clamps.append(cb.LineClamp(grid[(1, 0, 0)], a, b, (0.2 * scale, 1.8 * scale)))
        preds.append(lambda p, prm: (vnorm(vcross(vsub(p, a), ex)) < 1e-6 * scale, 0.2 * scale - 1e-9 <= prm[0] <= 1.8 * scale + 1e-9))
    links = []
    if "free" in kinds and (full or rng.random() < 0.7):
        # one leader may carry several links (Optimizer.tla: NFollow followers of clamp 1), added in any order
        # (2, 2, 2) is the vertex numbered last: a follower may be any vertex, the first and the last one included
        targets = [(1, 1, 2), (1, 2, 1), (2, 1, 1), (2, 2, 2), (0, 0, 0)]
        rng.shuffle(targets)
        for t in targets[:5 if full else rng.choice([1, 2, 3, 4])]:
            links.append(tag_link(cb.TranslationLink(grid[(1, 1, 1)], grid[t]), "translation", grid[(1, 1, 1)], grid[t]))
    return mesh, clamps, links, preds, scale


def sketch_scenario(rng: random.Random, force=None):
    import classy_blocks as cb
    import numpy as np

    point, vector, scale = similarity(rng)
    if (rng.random() < 0.4) if force is None else force == "library":
        # the library's own mapped sketches (quarter, half and whole spline disks - the merged ones list their faces in another
        # order than their grid): every inner point on a plane clamp, the outline free of clamps
        from classy_blocks.construct.flat.sketches.spline_round import HalfSplineDisk, QuarterSplineDisk, SplineDisk
        cls = rng.choice([QuarterSplineDisk, HalfSplineDisk, SplineDisk, HalfSplineDisk, SplineDisk])
        sketch = cls(point([1, 2, 3]), point([1, 4, 3]), point([1, 2, 4.5]), 0.5 * scale, 0.3 * scale)
        pos = [list(p) for p in sketch.positions]
        count: dict = {}
        for quad in sketch.indexes:
            for a in range(4):
                e = frozenset((quad[a], quad[(a + 1) % 4]))
                count[e] = count.get(e, 0) + 1
        outline = {v for e, c in count.items() if c == 1 for v in e}
        ex, o = vector([1, 0, 0]), point([1, 2, 3])
        clamps, preds = [], []
        for v in range(len(pos)):
            if v not in outline:
                clamps.append(cb.PlaneClamp(pos[v], pos[v], vmul(ex, rng.uniform(0.5, 2.0))))
                preds.append(lambda p, prm: (abs(vdot(vsub(p, o), ex)) < 1e-6 * scale, True))
        return sketch, clamps, [], preds, scale
    n = 3
    pos = []
    for j in range(n + 1):
        for i in range(n + 1):
            p = [float(i), float(j), 0.0]
            if 0 < i < n and 0 < j < n:
                p = [p[0] + rng.uniform(-0.3, 0.3), p[1] + rng.uniform(-0.3, 0.3), 0.0]
            pos.append(point(p))
    quads = [[i + (n + 1) * j, i + 1 + (n + 1) * j, i + 1 + (n + 1) * (j + 1), i + (n + 1) * (j + 1)] for j in range(n) for i in range(n)]
    sketch = cb.MappedSketch(np.array(pos), quads)
    ez = vector([0, 0, 1])
    o = point([0, 0, 0])
    clamps, preds = [], []
    interior = [i + (n + 1) * j for j in range(1, n) for i in range(1, n)]
    links = []
    if (rng.random() < 0.5) if force is None else force == "symmetry":
        # a pair of interior points mirrored in the plane x = 1.5 (given by a NON-unit normal): the left one is clamped,
        # the right one follows through a SymmetryLink
        lead, follow = 1 + (n + 1) * 1, 2 + (n + 1) * 1
        normal, origin = vector([rng.uniform(1.5, 3.0), 0, 0]), point([1.5, 0, 0])
        nn = vmul(normal, 1.0 / vnorm(normal))
        pos[follow] = vsub(pos[lead], vmul(nn, 2 * vdot(vsub(pos[lead], origin), nn)))
        sketch = cb.MappedSketch(np.array(pos), quads)
        clamps.append(cb.PlaneClamp(pos[lead], pos[lead], ez))
        preds.append(lambda p, prm: (abs(vdot(vsub(p, o), ez)) < 1e-6 * scale, True))
        links.append(tag_link(cb.SymmetryLink(pos[lead], pos[follow], normal, origin), "symmetry", pos[lead], pos[follow], normal, origin))
        interior = [v for v in interior if v not in (lead, follow)]
    for v in rng.sample(interior, rng.randint(1 if not links else 0, len(interior))):
        clamps.append(cb.PlaneClamp(pos[v], pos[v], ez))
        preds.append(lambda p, prm: (abs(vdot(vsub(p, o), ez)) < 1e-6 * scale, True))
    return sketch, clamps, links, preds, scale


def run_one(ctx: Ctx, rid: int, rng: random.Random, kind: str, mode: str, full: bool = False, rotation: bool = False, sketch_kind=None, again: bool = False):
    import numpy as np
    import classy_blocks as cb
    from classy_blocks.optimize import optimizer as optmod

    if kind == "mesh":
        obj, clamps, links, preds, scale = rotation_scenario(rng, rotation if isinstance(rotation, tuple) else (None, None), own_arrays=again) if rotation else mesh_scenario(rng, full)
        opt = cb.MeshOptimizer(obj, report=False)
    else:
        obj, clamps, links, preds, scale = sketch_scenario(rng, sketch_kind)
        opt = cb.SketchOptimizer(obj, report=False)
    for c in clamps:
        opt.add_clamp(c)
    for l in links:
        opt.add_link(l)
    pred_of = {id(c): p for c, p in zip(clamps, preds)}
    grid = opt.grid
    clamped = {grid.get_junction_from_clamp(c).index for c in clamps}
    followers = {il.follower_index for j in grid.junctions for il in j.links}
    initial = np.array(grid.points, copy=True)
    q_initial = float(grid.quality)
    steps: List[dict] = []
    real_minimize = optmod.scipy.optimize.minimize
    script = Script(mode, rng, real_minimize)
    script.scale = scale

    class Namespace:
        """stands in for scipy.optimize inside the optimizer module (only minimize is replaced)"""
        def __getattr__(self, name):
            return getattr(real_opt, name)
    real_opt = optmod.scipy.optimize
    state = {}

    def minimize(fun, x0, **kw):
        try:
            out = script(fun, x0, **kw)
        finally:
            try:
                state["q_last"] = float(grid.quality)
            except ValueError:
                state["q_last"] = None
            state["raised"] = False
        return out

    def minimize_guard(fun, x0, **kw):
        try:
            return minimize(fun, x0, **kw)
        except ValueError:
            state["raised"] = True
            raise

    orig_clamp = opt.optimize_clamp

    def optimize_clamp(clamp, method):
        junction = grid.get_junction_from_clamp(clamp)
        before_pts = np.array(grid.points, copy=True)
        before_params = np.array(clamp.params, copy=True)
        q_before = float(grid.quality)
        state.clear()
        orig_clamp(clamp, method)
        q_after = float(grid.quality)
        # a clamp's parameters come from a numerical closest-point search, so "back where it was" is exact to about
        # 1e-8 of the size only, and the quality to about 1e-7 relative per step: compare to 1e-5
        tolq = 1e-5 * max(1.0, abs(q_before))
        moved_here = {junction.index} | {il.follower_index for il in junction.links}
        others = [i for i in range(len(grid.points)) if i not in moved_here]
        q_last = state.get("q_last")
        degenerate = state.get("raised", False) or q_last is None
        restored = bool(np.max(np.abs(np.array(grid.points) - before_pts)) <= 1e-6 * scale)
        improved = (not degenerate) and (q_last < q_before)
        if (not degenerate) and abs(q_last - q_before) <= tolq:
            improved = not restored        # a tie within rounding: either outcome is the protocol's
        ok_manifold, ok_bounds = pred_of[id(clamp)](list(clamp.position), list(np.atleast_1d(clamp.params)))
        linked = all(vdist(grid.points[il.follower_index], expected_follower(il.link, list(grid.points[junction.index]))) <= 1e-7 * scale
                     for il in junction.links)
        steps.append({
            "junction": int(junction.index), "degenerate": bool(degenerate), "improved": bool(improved), "restored": restored,
            "q_after_eq_before": bool(abs(q_after - q_before) <= tolq),
            "q_after_eq_last": bool(q_last is not None and abs(q_after - q_last) <= tolq),
            "q_after_worse": bool(q_after > q_before + tolq),
            "others_still": bool(all(np.array_equal(grid.points[i], before_pts[i]) for i in others)),
            "followers_linked": bool(linked), "on_manifold": bool(ok_manifold), "in_bounds": bool(ok_bounds),
        })

    opt.optimize_clamp = optimize_clamp
    patched = type("OptPatched", (), {"minimize": staticmethod(minimize_guard), "approx_fprime": staticmethod(real_opt.approx_fprime)})
    saved_scipy = optmod.scipy

    class FakeScipy:
        optimize = patched
    first = None
    for rid_now in ([rid, rid + 1] if again else [rid]):
        # (a second optimize() with the same optimizer, clamps and links starts from where the first one ended and is judged
        #  like the first: never worse than ITS start, followers linked at every step, copied back)
        del steps[:]
        initial = np.array(grid.points, copy=True)
        q_initial = float(grid.quality)
        method = rng.choice(["SLSQP", "L-BFGS-B", "Nelder-Mead", "Powell"])
        err = None
        import contextlib
        import io
        max_iter, tolerance = rng.randint(1, 4), rng.choice([1e-3, 0.05, 0.3])
        driver = None
        optmod.scipy = FakeScipy
        try:
            with contextlib.redirect_stdout(io.StringIO()):
                driver = opt.optimize(max_iterations=max_iter, tolerance=tolerance, method=method)
        except Exception as e:  # pylint: disable=broad-except
            err = e
        finally:
            optmod.scipy = saved_scipy
        ctx.evaluated(f"{kind}:{mode}:{method}:{len(clamps)}:{len(links)}")
        if err is not None:
            ctx.violation(f"optimize-raises:{kind}:{mode}:{type(err).__name__}", f"optimize() raised {type(err).__name__}: {err}", {"kind": kind, "mode": mode})
            return first
        q_final = float(grid.quality)
        movable = clamped | followers
        if kind == "mesh":
            final_obj = np.array([v.position for v in obj.vertices])
        else:
            final_obj = np.array(obj.positions)
        # (a sketch: every face holds the points its quad refers to)
        faces_hold = kind == "mesh" or all(float(np.max(np.abs(np.array(face.point_array) - np.array(grid.points)[list(quad)]))) <= 1e-12 * scale
                                           for face, quad in zip(obj.faces, obj.indexes))
        # the iteration driver's record, in units of 1e-9 of the quality before the first iteration
        unit = 1e-9 * max(q_initial, 1e-300)
        its = [[int(round(min(it.initial_quality / unit, 2e9))), int(round(min(it.final_quality / unit, 2e9)))] for it in driver.iterations] if driver is not None else []
        rec = {
            "id": rid_now, "kind": kind, "mode": mode, "method": method, "steps": list(steps),
            "iters": its, "max_iter": max_iter, "tol": int(round(tolerance * 1e9)),
            "final_worse": bool(q_final > q_initial + 1e-5 * max(1.0, abs(q_initial))),
            "unclamped_still": bool(all(np.array_equal(final_obj[i], initial[i]) for i in range(len(initial)) if i not in movable)),
            "backport_equal": bool(np.max(np.abs(final_obj - np.array(grid.points))) <= 1e-12 * scale) and faces_hold,
            "followers_linked": bool(all(s["followers_linked"] for s in steps) if steps else True),
            "on_manifold": bool(all(pred_of[id(c)](list(c.position), list(np.atleast_1d(c.params)))[0] for c in clamps)),
            "in_bounds": bool(all(pred_of[id(c)](list(c.position), list(np.atleast_1d(c.params)))[1] for c in clamps)),
        }
        if first is None:
            first = [rec]
        else:
            first.append(rec)
    return first


def driver_histories(ctx: Ctx) -> None:
    """Driver.tla: every reachable history of iteration qualities with the decision due after it, replayed through the real
    IterationDriver (begin_iteration / end_iteration / converged)."""
    import contextlib
    import io

    from classy_blocks.optimize.iteration import IterationDriver

    plans = [("4", "3", "2"), ("3", "4", "3")] if ctx.tier == "quick" else [("5", "4", "2"), ("4", "4", "3"), ("6", "3", "10")]
    for qmax, maxiter, tolden in plans:
        consts = {"QMax": qmax, "MaxIter": maxiter, "TolDen": tolden}
        res = run_tlc("Driver", "driver.cfg", cfg_text=cfg_text("Spec", consts, ["Bounded", "AtLeastTwo", "EarlyStop"], ["Ends"], constraints=["Emit"]),
                      workers=1, timeout=900)
        ctx.add_tlc(res)
        hs = [r for r in res.records if "hist" in r]
        if len(hs) < 10:
            raise MachineryError("Driver.tla emitted too few histories")
        for h in hs:
            unit = 7.5          # qualities are arbitrary positive numbers: the integers of the model times a unit
            with contextlib.redirect_stdout(io.StringIO()):
                drv = IterationDriver(h["max_iter"], 1.0 / h["tolden"])
                try:
                    decided = bool(drv.converged)       # before anything ran: never converged
                    if decided:
                        ctx.violation("driver:converged-before-first-iteration", "a fresh IterationDriver reports converged", {"history": h})
                        continue
                    for qb, qe in h["hist"]:
                        drv.begin_iteration(qb * unit)
                        drv.end_iteration(qe * unit)
                    decided = bool(drv.converged)
                except Exception as err:  # pylint: disable=broad-except
                    ctx.violation(f"driver:raises:{type(err).__name__}", f"IterationDriver raised {err}", {"history": h})
                    continue
            ctx.evaluated(f"driver:{h['hist']}:{h['max_iter']}:{h['tolden']}")
            ctx.validated()
            if decided != h["converged"]:
                kind = "stops-early" if decided else "goes-on"
                ctx.violation(f"driver:{kind}", f"after iterations {h['hist']} (max {h['max_iter']}, tolerance 1/{h['tolden']}) the driver "
                              f"{'stops' if decided else 'goes on'}, Driver.tla says it {'stops' if h['converged'] else 'goes on'}", {"history": h})


def run(ctx: Ctx) -> None:
    ctx.rule = ("runs = small perturbed hex assemblies (2x2x2) and mapped sketches (3x3) under random similarities with random "
                "subsets of Free/Plane/Line clamps and a translation link, 1..3 iterations, the four scipy methods and three "
                "scripted minimisers; non-trivial = at least one clamp step recorded; distinct by (kind, mode, method, clamps)")
    consts = {"NClamps": "2", "NFollow": "2", "NParams": "2", "QMax": "2", "MaxProbes": "2" if ctx.tier == "quick" else "3",
              "MaxIter": "3", "TolDen": "2"}
    text = cfg_text("Spec", consts, ["NeverWorse", "UnclampedStill", "FollowerLinked", "NotHalfApplied", "BackportEqual", "IterBound", "IterAtLeastTwo"], ["StepMonotone"])
    res = run_tlc("Optimizer", "opt.cfg", cfg_text=text, workers=16, timeout=1200)
    ctx.add_tlc(res)
    # the driver ends: under weak fairness every behaviour reaches "done" (at most MaxIter iterations of bounded steps)
    live = run_tlc("Optimizer", "opt_live.cfg", cfg_text=cfg_text("FairSpec", consts, ["IterBound"], ["Terminates"]), workers=16, timeout=1200)
    ctx.add_tlc(live)
    driver_histories(ctx)
    rng = random.Random(ctx.seed + 13)
    recs = []
    n = 24 if ctx.tier == "quick" else 200
    for i in range(n):
        kind = "mesh" if i % 2 == 0 else "sketch"
        mode = ["real", "scripted-random", "scripted-worse", "scripted-degenerate"][(i // 2) % 4]
        # the second round of the four modes uses the rotation scenario (RadialClamp + RotationLinks) for its mesh runs
        # (the two rotation runs with the real minimiser: travel bounded, axis shorter / longer than 1)
        rotation = {8: (True, True), 16: (True, False)}.get(i, 8 <= i < 16 or i % 5 == 4)
        # (sketch runs: library spline disks, a symmetry link, a plain grid of plane clamps - in turn, so that each meets
        #  the real minimiser and every scripted one)
        # every fourth run optimizes twice (its rotation links, if any, are then made from the mesh's own vertex arrays)
        out = run_one(ctx, len(recs) + 1, rng, kind, mode, full=i < 8, rotation=rotation, sketch_kind=["library", "symmetry", "plain"][(i // 2) % 3],
                      again=i % 4 == 0)
        recs.extend(out or [])
    if not recs:
        raise MachineryError("no optimizer run could be recorded")
    path = os.path.join(ctx.tmp, "opt.json")
    with open(path, "w", encoding="utf-8") as f:
        json.dump({"recs": recs}, f)
    res = run_tlc("OptimizerJudge", "OptimizerJudge.cfg", env={"VERIF_TRACE_FILE": path}, workers=1, timeout=600)
    ctx.add_tlc(res)
    verdicts = {v["id"]: v["fails"] for v in res.records if "id" in v}
    if len(verdicts) != len(recs):
        raise MachineryError("OptimizerJudge returned too few verdicts")
    for r in recs:
        ctx.validated()
        if r["steps"]:
            ctx.nontrivial.add(f"{r['kind']}:{r['mode']}:{r['method']}:{len(r['steps'])}")
        for c in verdicts[r["id"]]:
            ctx.violation(f"optimizer:{c}:{r['kind']}:{r['mode']}", f"OptimizerJudge clause {c} rejected a {r['kind']} run ({r['mode']}, {r['method']})", r)
    ctx.sample({k: recs[0][k] for k in ("kind", "mode", "method")} | {"steps": recs[0]["steps"][:2]})
    ctx.exhaustive = False
