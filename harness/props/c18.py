"""C18 - finders are exact; viewpoint re-orientation canonicalises block numbering.

Find.tla computes, in integer arithmetic, the exact vertex sets of sphere and plane queries on lattice meshes
(radii off every lattice distance) and, from an observer/ceiling frame alone, the canonical numbering of a
hexahedron (checked by TLC to be a rotation for all 24 frames).  The harness builds the lattice mesh under a
random similarity and compares GeometricFinder's answers with the exact sets (plus 0.3/3 x TOL twins for the
plane finder), checks RoundSolidFinder's core/rim sets on round shapes against geometric predicates, and
re-orients a distorted convex block from all 48 initial numberings x 24 frames, and a mildly distorted one from
viewpoints in general position (block turned with respect to the line of sight, ceiling point pulled towards or away
from the observer) for which Find.tla decides the front and the top side by a clear integer margin.
"""

from __future__ import annotations

import math
import random
from typing import Dict, List

from .. import hexref
from ..common import Ctx, MachineryError
from ..renderlib import vadd, vdist, vdot, vmul, vnorm, vsub
from ..tlc import run_tlc
from .c08 import similarity
from .grading import cfg_text


def lattice_mesh(nx, ny, nz, point, displaced=None, merged=False):
    import classy_blocks as cb

    def pos(i, j, l):
        p = point([2 * i, 2 * j, 2 * l])
        if displaced and (2 * i, 2 * j, 2 * l) == tuple(displaced[0]):
            p = vadd(p, displaced[1])
        return p

    mesh = cb.Mesh()
    for i in range(nx):
        for j in range(ny):
            for l in range(nz):
                pts = [pos(i + c[0], j + c[1], l + c[2]) for c in hexref.XYZ]
                op = cb.Loft(cb.Face(pts[:4]), cb.Face(pts[4:]))
                if merged and nx >= 2:
                    # the plane between the first two columns of cells is a face-merged pair: duplicated vertices
                    if i == 0:
                        op.set_patch("right", "iface_master")
                    elif i == 1:
                        op.set_patch("left", "iface_slave")
                mesh.add(op)
    if merged and nx >= 2:
        mesh.merge_patches("iface_master", "iface_slave")
    mesh.assemble()
    return mesh


def finders(ctx: Ctx, queries: List[dict], dims, rng: random.Random) -> None:
    import classy_blocks as cb

    nx, ny, nz = dims
    point, vector, scale = similarity(rng)
    mesh = lattice_mesh(nx, ny, nz, point)
    lat = {}
    for v in mesh.vertices:
        best = None
        for i in range(nx + 1):
            for j in range(ny + 1):
                for l in range(nz + 1):
                    d = vdist(v.position, point([2 * i, 2 * j, 2 * l]))
                    if best is None or d < best[0]:
                        best = (d, (2 * i, 2 * j, 2 * l))
        lat[v.index] = best[1]
    finder = cb.GeometricFinder(mesh)

    def ask(qs, where, tag):
        for q in qs:
            want = {tuple(v) for v in q["found"]}
            try:
                if q["kind"] == "sphere":
                    got = finder.find_in_sphere(point(q["c"]), scale * math.sqrt(q["r22"] / 2.0))
                else:
                    got = finder.find_on_plane(point(q["c"]), vmul(vector(q["n"]), rng.uniform(0.3, 4.0)))
            except Exception as err:  # pylint: disable=broad-except
                ctx.violation(f"finder-raises:{q['kind']}{tag}:{type(err).__name__}", str(err), {"query": q})
                continue
            ctx.evaluated(f"{q['kind']}:{q['c']}:{q['r22']}:{q['n']}{tag}" if 0 < len(want) < (nx + 1) * (ny + 1) * (nz + 1) else None)
            got_l = {where[v.index] for v in got}
            if got_l != want:
                kind = "missed" if want - got_l else "extra"
                ctx.violation(f"finder:{q['kind']}{tag}:{kind}", f"{q['kind']} query{tag} returned {len(got_l)} vertices, exact set has {len(want)}",
                              {"query": {k: q[k] for k in ("kind", "c", "r22", "n")}, "missed": sorted(want - got_l), "extra": sorted(got_l - want)})
    ask(queries, lat, "")
    # second use of the same finder: the vertices have moved since (every vertex to the lattice point mirrored in x, so that the
    # exact answers are the same sets of lattice points, now occupied by other vertices) - a finder answers for the mesh as it is
    import numpy as np
    lat2 = {i: (2 * nx - p[0], p[1], p[2]) for i, p in lat.items()}
    for v in mesh.vertices:
        v.move_to(np.array(point(list(lat2[v.index]))))
    ask(rng.sample(queries, min(40, len(queries))), lat2, ":after-move")
    # the same queries on the mesh whose first two columns are joined by a face-merged patch pair (Find.tla: twice)
    if nx >= 2:
        mm = lattice_mesh(nx, ny, nz, point, merged=True)
        where = {}
        for v in mm.vertices:
            key = min(((vdist(v.position, point([2 * i, 2 * j, 2 * l])), (2 * i, 2 * j, 2 * l)) for i in range(nx + 1) for j in range(ny + 1) for l in range(nz + 1)))[1]
            where[v.index] = key
        mfinder = cb.GeometricFinder(mm)
        exact = [{"kind": "sphere", "c": list(p), "r22": 0, "n": [0, 0, 0], "found": [list(p)], "twice": [list(p)] if p[0] == 2 else [], "exact": True}
                 for p in sorted(set(where.values()))]
        for q in rng.sample(queries, min(60, len(queries))) + rng.sample(exact, min(12, len(exact))):
            try:
                if q.get("exact"):
                    got = mfinder.find_in_sphere(point(q["c"]))          # default radius: "the vertex at this position"
                elif q["kind"] == "sphere":
                    got = mfinder.find_in_sphere(point(q["c"]), scale * math.sqrt(q["r22"] / 2.0))
                else:
                    got = mfinder.find_on_plane(point(q["c"]), vmul(vector(q["n"]), rng.uniform(0.3, 4.0)))
            except Exception as err:  # pylint: disable=broad-except
                ctx.violation(f"finder-raises:merged:{q['kind']}:{type(err).__name__}", str(err), {"query": q["c"]})
                continue
            ctx.evaluated()
            twice = {tuple(v) for v in q["twice"]}
            want_multi = sorted([tuple(v) for v in q["found"]] + list(twice))
            got_multi = sorted(where[v.index] for v in got)
            if got_multi != want_multi:
                kind = "exact-position" if q.get("exact") else q["kind"]
                ctx.violation(f"finder:merged:{kind}:{'missed' if len(got_multi) < len(want_multi) else 'extra'}",
                              f"on a mesh with a merged patch pair the {kind} query returned {len(got_multi)} vertices, "
                              f"{len(want_multi)} lie there (both copies of every interface point)", {"query": q["c"], "r22": q["r22"], "n": q["n"]})
    # near-tolerance twins for the plane finder
    planes = [q for q in queries if q["kind"] == "plane" and q["found"]]
    for q in rng.sample(planes, min(6, len(planes))):
        n_world = vector(q["n"])
        unit = vmul(n_world, 1.0 / vnorm(n_world))
        v0 = rng.choice(q["found"])
        for factor, must in ((0.3e-7, True), (3e-7, False)):
            m2 = lattice_mesh(nx, ny, nz, point, displaced=(v0, vmul(unit, factor)))
            # the length of the normal must not matter: long normal for the inside twin, short for the outside one
            got = cb.GeometricFinder(m2).find_on_plane(point(q["c"]), vmul(unit, 25.0 if must else 0.04))
            hit = any(vdist(v.position, vadd(point(v0), vmul(unit, factor))) < 1e-12 + 1e-9 * scale for v in got)
            ctx.evaluated()
            if hit != must:
                ctx.violation(f"finder:plane:tolerance:{'inside' if must else 'outside'}",
                              f"a vertex {factor / 1e-7:.1f} TOL off the plane is {'not ' if not hit else ''}returned", {"query": q["c"], "n": q["n"]})


def round_finder(ctx: Ctx, rng: random.Random, n: int) -> None:
    import classy_blocks as cb

    for _ in range(n):
        point, vector, scale = similarity(rng)
        kind = rng.choice(["cylinder", "frustum", "elbow"])
        a0, a1, r0 = point([0, 0, 0]), point([0, 0, 2]), point([1, 0, 0])
        try:
            if kind == "cylinder":
                shape = cb.Cylinder(a0, a1, r0)
                rad = [scale, scale]
                centres = [a0, a1]
            elif kind == "frustum":
                shape = cb.Frustum(a0, a1, r0, 0.5 * scale)
                rad = [scale, 0.5 * scale]
                centres = [a0, a1]
            else:
                shape = cb.Elbow(a0, r0, vector([0, 0, 1]), math.pi / 3, point([3, 0, 0]), vector([0, 1, 0]), 0.8 * scale)
                rad = [scale, 0.8 * scale]
                centres = [a0, None]
            mesh = cb.Mesh()
            mesh.add(shape)
            mesh.assemble()
            finder = cb.RoundSolidFinder(mesh, shape)
        except Exception as err:  # pylint: disable=broad-except
            ctx.violation(f"round-finder-raises:{kind}:{type(err).__name__}", str(err), {"kind": kind})
            continue
        for end in (False, True):
            sketch = shape.sketch_2 if end else shape.sketch_1
            centre = list(sketch.center)
            normal = list(sketch.normal)
            normal = vmul(normal, 1.0 / vnorm(normal))
            R = rad[1 if end else 0]
            on_face = [v for v in mesh.vertices if abs(vdot(vsub(list(v.position), centre), normal)) < 1e-6 * scale
                       and vdist(v.position, centre) < R * (1 + 1e-6)]
            rim = {v.index for v in on_face if abs(vdist(v.position, centre) - R) < 1e-6 * scale}
            core = {v.index for v in on_face} - rim
            try:
                got_core = {v.index for v in finder.find_core(end)}
                got_shell = {v.index for v in finder.find_shell(end)}
            except Exception as err:  # pylint: disable=broad-except
                ctx.violation(f"round-finder-raises:{kind}:{type(err).__name__}", str(err), {"kind": kind})
                continue
            ctx.evaluated(f"round:{kind}:{end}")
            if got_core != core:
                ctx.violation(f"round-finder:core:{kind}", f"find_core returned {sorted(got_core)}, vertices inside the rim are {sorted(core)}", {"kind": kind, "end": end})
            if got_shell != rim:
                ctx.violation(f"round-finder:shell:{kind}", f"find_shell returned {sorted(got_shell)}, rim vertices are {sorted(rim)}", {"kind": kind, "end": end})


def reorient(ctx: Ctx, view: dict, rng: random.Random, full: bool, oblique: bool = False, tiny: bool = False) -> None:
    import classy_blocks as cb
    import numpy as np

    point, vector, scale = similarity(rng)
    if tiny:
        # a block of 0.2 mm in a model given in metres (two thousand merge tolerances across): which points of the hull
        # coincide is a matter of the merge tolerance, not of the size of the block
        big_point, anchor, k = point, point([0, 0, 0]), 2e-5 / scale

        def point(p):      # noqa: F811
            q = big_point(p)
            return [anchor[i] + k * (q[i] - anchor[i]) for i in range(3)]
        scale *= k
    if oblique:
        # viewpoints in general position: the block is turned with respect to the line of sight and the ceiling point is
        # pulled towards/away from the observer; Find.tla decided front and top by a 1.5x margin, so only a mild distortion
        distort = [[rng.choice([-0.3, 0, 0.2, 0.3]) for _ in range(3)] for _ in range(8)]
        frames = view["oblique"] if full else rng.sample(view["oblique"], 400)
        per_frame = 4 if full else 2
    else:
        distort = [[rng.choice([-1, 0, 1, 2]) for _ in range(3)] for _ in range(8)]
        frames = view["frames"]
        per_frame = 48 if full else 16
    ref = [point([10 * hexref.XYZ[r][i] + distort[r][i] for i in range(3)]) for r in range(8)]
    centre = [sum(p[i] for p in ref) / 8 for i in range(3)]
    size = 10 * scale
    numberings = view["numberings"] if (full and not oblique) else rng.sample(view["numberings"], per_frame)
    rotations = [hexref.SYMS[n] for n in hexref.ROT_IDX]
    for frame in frames:
        o, c = vector(frame["o"]), vector(frame["c"])
        if oblique:
            numberings = rng.sample(view["numberings"], per_frame)
        for num in numberings:
            pts = [ref[num[k]] for k in range(8)]
            op = cb.Loft(cb.Face(pts[:4]), cb.Face(pts[4:]))
            if oblique:
                far = rng.choice([20, 60, 300]) * size / vnorm(o)
                far_c = rng.choice([20, 60, 300]) * size / vnorm(c)
                jit = [rng.uniform(-0.2, 0.2) * size for _ in range(6)]
                observer = [centre[i] + far * o[i] + jit[i] for i in range(3)]
                ceiling = [centre[i] + far_c * c[i] + jit[3 + i] for i in range(3)]
            else:
                jit = [rng.uniform(-3, 3) * size for _ in range(6)]
                tilt = rng.uniform(-0.6, 0.6)      # the ceiling point need not be at a right angle to the line of sight
                observer = [centre[i] + 60 * size * o[i] + jit[i] for i in range(3)]
                ceiling = [centre[i] + 60 * size * (c[i] + tilt * o[i]) + jit[3 + i] for i in range(3)]
            ctx.evaluated(f"reorient:{frame['o']}:{frame['c']}:{num}")
            mirrored = "mirrored" if num not in rotations else "rotated"
            if oblique:
                mirrored += ":oblique"
            if tiny:
                mirrored += ":tiny-block"
            try:
                cb.ViewpointReorienter(observer, ceiling).reorient(op)
            except Exception as err:  # pylint: disable=broad-except
                ctx.violation(f"reorient-raises:{mirrored}:{type(err).__name__}", f"reorient raised {err}", {"frame": frame, "numbering": num, "distort": distort})
                continue
            got = op.point_array
            want = [ref[frame["expected"][k]] for k in range(8)]
            if max(vdist(got[k], want[k]) for k in range(8)) > 1e-9 * size:
                ctx.violation(f"reorient:{mirrored}", "re-oriented block is not numbered canonically for the viewpoint",
                              {"frame": frame, "numbering": num, "distort": distort})
            # right-handed
            a, b, cc = vsub(list(got[1]), list(got[0])), vsub(list(got[3]), list(got[0])), vsub(list(got[4]), list(got[0]))
            triple = a[0] * (b[1] * cc[2] - b[2] * cc[1]) - a[1] * (b[0] * cc[2] - b[2] * cc[0]) + a[2] * (b[0] * cc[1] - b[1] * cc[0])
            if triple <= 0:
                ctx.violation(f"reorient:left-handed:{mirrored}", "re-oriented block is left-handed", {"frame": frame, "numbering": num})


def run(ctx: Ctx) -> None:
    ctx.rule = ("queries = all spheres (integer centres x 4 radii) and planes (lattice points x 7 integer normals) of Find.tla on a "
                "lattice mesh under a random similarity; re-orientation = 48 numberings x 24 viewpoint frames of a randomly "
                "distorted convex block; non-trivial = query returns a proper non-empty subset / numbering differs from canonical")
    dims = (2, 2, 1) if ctx.tier == "quick" else (3, 2, 2)
    consts = {"NX": str(dims[0]), "NY": str(dims[1]), "NZ": str(dims[2])}
    res = run_tlc("Find", "find.cfg", cfg_text=cfg_text("Spec", consts, ["QueryOK"], constraints=["Emit"]), workers=1, timeout=900)
    ctx.add_tlc(res)
    queries = [r for r in res.records if "kind" in r]
    views = [r for r in res.records if "frames" in r]
    if len(queries) < 50 or len(views) != 1:
        raise MachineryError("Find.tla did not emit the expected records")
    rng = random.Random(ctx.seed + 18)
    qs = queries if ctx.tier == "thorough" else rng.sample(queries, 250)
    finders(ctx, qs, dims, rng)
    for _ in queries[:1]:
        ctx.validated(len(qs))
    round_finder(ctx, rng, 6 if ctx.tier == "quick" else 40)
    reorient(ctx, views[0], rng, full=ctx.tier == "thorough")
    reorient(ctx, views[0], rng, full=ctx.tier == "thorough", oblique=True)
    reorient(ctx, views[0], rng, full=False, tiny=True)
    reorient(ctx, views[0], rng, full=False, oblique=True, tiny=True)
    ctx.sample({k: qs[0][k] for k in ("kind", "c", "r22", "n")} | {"found": qs[0]["found"][:5]})
    ctx.exhaustive = ctx.tier == "thorough"
