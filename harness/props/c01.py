"""C01 - blocks that share an edge agree on its cell count, else inconsistent-grading error.

1. TLC checks Grading.tla (operational algorithm vs declarative families) on chop
   placements that cover every family, including conflicting ones.
2. TLC emits every configuration with its declarative outcome; each is replayed into
   Mesh.write() under several forced set-iteration schedules and the parsed file /
   exception class is compared.
3. Random assemblies of real shapes are recorded and judged by TLC (GradingJudge.tla).
"""

from __future__ import annotations

import random

from ..common import Ctx
from .. import examples
from . import grading as g
from . import grading_judge


def consts(tier: str):
    if tier == "quick":
        return {
            "Variant": '"fixed"', "Topos": g.tla_set(["face2", "edge2", "ell3"]), "Rot1Choice": "{1}",
            "RotChoice": "{1, 30}", "ChopOpts": g.tla_set(["A2", "B3"]), "MaxChopped": "1", "Cover": "TRUE",
            "AllOrders": "FALSE", "PassBound": "4", "Rounds": "2",
        }
    return {
        "Variant": '"fixed"', "Topos": g.tla_set(["face2", "edge2", "row3", "ell3", "hook3"]), "Rot1Choice": "{1}",
        "RotChoice": "{1, 4, 30}", "ChopOpts": g.tla_set(["A2", "B3"]), "MaxChopped": "2", "Cover": "TRUE",
        "AllOrders": "FALSE", "PassBound": "4", "Rounds": "2",
    }


def consts_edge_contact():
    """two blocks touching along ONE edge, the second in every one of the 24 numberings (so that the shared edge is the first,
    second, third and fourth wire of its direction in either block), one extra chop that may conflict"""
    return {
        "Variant": '"fixed"', "Topos": g.tla_set(["edge2"]), "Rot1Choice": "{1, 6, 11, 16, 21, 30, 36, 43}",
        "RotChoice": "{" + ", ".join(str(n) for n in sorted(__import__("harness.hexref", fromlist=["ROT_IDX"]).ROT_IDX)) + "}",
        "ChopOpts": g.tla_set(["A2", "B3"]), "MaxChopped": "1", "Cover": "TRUE", "AllOrders": "FALSE", "PassBound": "4", "Rounds": "1",
    }


def consts_multisection():
    """thorough only: two-section chops and more numberings on the two-block topologies"""
    return {
        "Variant": '"fixed"', "Topos": g.tla_set(["face2", "edge2", "corner2"]), "Rot1Choice": "{1, 11}",
        "RotChoice": "{1, 4, 7, 30, 43}", "ChopOpts": g.tla_set(["A2", "B3", "D1E2"]), "MaxChopped": "2", "Cover": "TRUE",
        "AllOrders": "TRUE", "PassBound": "4",
    }


INVS = ["TypeOK", "PassBoundOK", "OutcomeOK", "WrittenAgree", "Complete", "NoPartial"]


def run(ctx: Ctx) -> None:
    c = consts(ctx.tier)
    ctx.rule = ("configurations = Init states of Grading.tla (topology x corner numbering x chop placement covering "
                "every family); non-trivial = at least two blocks share an edge; distinct by (vertex ids, chops)")
    cfgs = g.model_check(ctx, c, INVS, timeout=3000, emit=True).records
    edge_cfgs = g.model_check(ctx, consts_edge_contact(), INVS, timeout=3000, emit=True).records
    if ctx.tier == "thorough":
        cfgs += g.model_check(ctx, consts_multisection(), INVS, timeout=3000, emit=True).records
    rng = random.Random(ctx.seed)
    n_sched = 2 if ctx.tier == "quick" else 6
    limit = 700 if ctx.tier == "quick" else 20000
    if len(cfgs) > limit:
        # keep all conflicting ones preferentially, sample the rest
        conflict = [x for x in cfgs if x["expected"] != "Written"]
        ok = [x for x in cfgs if x["expected"] == "Written"]
        rng.shuffle(conflict)
        rng.shuffle(ok)
        cfgs = conflict[: limit // 2] + ok[: limit - min(len(conflict), limit // 2)]
        ctx.exhaustive = False
    else:
        ctx.exhaustive = True
    # edge contacts: every conflicting configuration in the thorough tier, a sample in the quick one (one schedule each)
    erng = random.Random(ctx.seed + 101)
    conflicts = [x for x in edge_cfgs if x["expected"] != "Written"]
    others = [x for x in edge_cfgs if x["expected"] == "Written"]
    if ctx.tier == "quick":
        conflicts, others = erng.sample(conflicts, min(len(conflicts), 500)), erng.sample(others, min(len(others), 100))
    for cfg in conflicts + others:
        obs = g.observe(cfg, ctx, random.Random(erng.random()))
        ctx.evaluated(g.cfg_key(cfg))
        bad = g.judge_outcome("C01", cfg, obs)
        if bad:
            ctx.violation(bad[0] + ":edge-contact", bad[1], {"cfg": g.summarize(cfg), "observed": obs["outcome"], "schedule": 0})
        ctx.validated()
    for cfg in cfgs:
        for k in range(n_sched):
            obs = g.observe(cfg, ctx, random.Random(rng.random()))
            ctx.evaluated(g.cfg_key(cfg) if cfg["nfam"] < 3 * cfg["nb"] else None)
            bad = g.judge_outcome("C01", cfg, obs)
            if bad:
                ctx.violation(bad[0], bad[1], {"cfg": g.summarize(cfg), "observed": obs["outcome"], "schedule": k})
            ctx.validated()
        ctx.sample(g.summarize(cfg))
    # the repository's example scripts as recorded executions: File.tla CountsAgree on every dictionary they write
    examples.judge_examples(ctx, "C01")
    grading_judge.random_assemblies(ctx, "C01", n=40 if ctx.tier == "quick" else 400)


def replay(ctx: Ctx, data: dict) -> None:
    cfg = data["replay"]["cfg"]
    full = {"nb": cfg["nb"], "verts": cfg["verts"], "expected": cfg["expected"], "counts": cfg["counts"], "nfam": 0,
            "chops": [[[{"law": l, "cnt": 0} for l in ax] for ax in blk] for blk in cfg["chops"]]}
    rng = random.Random(ctx.seed)
    ctx.cov["states"] = ctx.cov["transitions"] = 1
    for k in range(20):
        obs = g.observe(full, ctx, random.Random(rng.random()))
        ctx.evaluated("replay")
        bad = g.judge_outcome("C01", full, obs)
        if bad:
            ctx.violation(bad[0], bad[1], {"cfg": cfg, "observed": obs["outcome"], "schedule": k})
