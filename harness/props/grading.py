"""Shared machinery of C01 / C02 / C04: TLC runs of Grading.tla and replay of its
configurations into Mesh.write() under forced set-iteration schedules."""

from __future__ import annotations

import random
from typing import Dict, List

from ..common import Ctx, MachineryError
from ..gradelib import build_mesh, file_blocks_as_lattice, force_schedule, run_write
from ..tlc import run_tlc


def cfg_text(spec: str, consts: Dict[str, str], invariants: List[str], props: List[str] = (), constraints: List[str] = ()) -> str:
    out = [f"SPECIFICATION {spec}", "CONSTANTS"]
    for k, v in consts.items():
        out.append(f"  {k} = {v}")
    for i in invariants:
        out.append(f"INVARIANT {i}")
    for p in props:
        out.append(f"PROPERTY {p}")
    for c in constraints:
        out.append(f"CONSTRAINT {c}")
    out.append("CHECK_DEADLOCK FALSE")
    return "\n".join(out) + "\n"


def tla_set(items) -> str:
    return "{" + ", ".join(f'"{x}"' if isinstance(x, str) else str(x) for x in items) + "}"


def model_check(ctx: Ctx, consts: Dict[str, str], invariants: List[str], props: List[str] = (), timeout: int = 900,
                emit: bool = False):
    """TLC on Grading.tla. With emit=True the same run also prints every Init configuration with its declarative
    outcome (initial states are computed, and their constraint evaluated, by a single thread, so the records are
    not interleaved even with 16 workers)."""
    consts = {"Rounds": "1", **consts}
    text = cfg_text("Spec", consts, invariants, props, constraints=["EmitCfg"] if emit else [])
    res = run_tlc("Grading", "mc.cfg", cfg_text=text, workers=16, timeout=timeout)
    ctx.add_tlc(res)
    if emit and not res.records:
        raise MachineryError("Grading.tla emitted no configurations")
    return res


def generate(ctx: Ctx, consts: Dict[str, str], timeout: int = 600) -> List[dict]:
    consts = {"Rounds": "1", **consts}
    text = cfg_text("GenSpec", consts, [], constraints=["EmitCfg"])
    res = run_tlc("Grading", "gen.cfg", cfg_text=text, workers=1, timeout=timeout)
    ctx.add_tlc(res)
    if not res.records:
        raise MachineryError("Grading generation produced no configurations")
    return res.records


def cfg_key(cfg: dict) -> str:
    return f"{cfg['verts']}|{[[[(s['law'], s['cnt']) for s in ax] for ax in blk] for blk in cfg['chops']]}"


def summarize(cfg: dict) -> dict:
    return {"nb": cfg["nb"], "verts": cfg["verts"],
            "chops": [[[s["law"] for s in ax] for ax in blk] for blk in cfg["chops"]],
            "expected": cfg["expected"], "counts": cfg["counts"]}


def observe(cfg: dict, ctx: Ctx, rng: random.Random, budget_factor: int = 8) -> dict:
    mesh, _ = build_mesh(cfg)
    try:
        mesh.assemble()
    except Exception as err:  # pylint: disable=broad-except
        return {"outcome": f"Exception:assemble:{type(err).__name__}", "visits": 0, "partial_file": False}
    force_schedule(mesh, rng)
    nb = cfg["nb"]
    budget = budget_factor * (4 * nb + 2) * nb + 50
    obs = run_write(mesh, budget, ctx.tmp)
    if cfg.get("rounds", 1) > 1 and obs["outcome"] in ("Written", "Undefined", "Inconsistent"):
        # Grading.tla's Regrade: the user writes the same assembled mesh once more (after an error: a retry)
        force_schedule(mesh, rng)
        obs["second"] = run_write(mesh, budget, ctx.tmp, tag="m2")
    return obs


def judge_outcome(prop: str, cfg: dict, obs: dict):
    """Compare an observation with the specification's declarative outcome.
    Returns None or (signature, description)."""
    exp = cfg["expected"]
    got = obs["outcome"]
    allowed = {"Written": {"Written"}, "Undefined": {"Undefined"}, "Inconsistent": {"Inconsistent"},
               "UndefinedOrInconsistent": {"Undefined", "Inconsistent"}}[exp]
    if obs.get("partial_file"):
        return ("partial-file", f"a dictionary was left on disk although writing ended with {got}")
    if got not in allowed:
        return (f"expected:{exp}->got:{got.split(':')[0]}", f"specification outcome {exp}, implementation {got}")
    if got != "Written" and "second" in obs:
        again = obs["second"]
        if again.get("partial_file"):
            return ("rewrite:partial-file", f"a dictionary was left on disk although the second attempt ended with {again['outcome']}")
        if again["outcome"] not in allowed:
            return (f"rewrite:expected:{exp}->got:{again['outcome'].split(':')[0]}",
                    f"the first attempt to write ended with {got}; the second, on the same mesh, with {again['outcome']} (specification: {exp})")
    if got == "Written":
        blocks = file_blocks_as_lattice(obs["file"])
        if len(blocks) != cfg["nb"]:
            return ("block-count", f"{len(blocks)} blocks written for {cfg['nb']} operations")
        for b, blk in enumerate(blocks):
            if blk["verts"] != cfg["verts"][b]:
                return ("block-vertices", f"block {b} lists vertices {blk['verts']}, model has {cfg['verts'][b]}")
            if blk["n"] != cfg["counts"][b]:
                return ("wrong-count", f"block {b} written with counts {blk['n']}, family counts are {cfg['counts'][b]}")
        # the property on the observation itself: every shared edge has one count
        from ..hexref import AXIS_WIRES
        edge_counts: Dict[frozenset, set] = {}
        for blk in blocks:
            for a in range(3):
                for (c1, c2) in AXIS_WIRES[a]:
                    edge_counts.setdefault(frozenset((blk["idx"][c1], blk["idx"][c2])), set()).add(blk["n"][a])
        for e, cs in edge_counts.items():
            if len(cs) > 1:
                return ("shared-edge-disagree", f"edge {sorted(e)} carries counts {sorted(cs)}")
        if "second" in obs:
            again = obs["second"]
            if again["outcome"] != "Written":
                return (f"rewrite:{again['outcome'].split(':')[0]}", f"writing the same mesh a second time ended with {again['outcome']}")
            bad = judge_outcome(prop, cfg, again)
            if bad:
                return ("rewrite:" + bad[0], "second write of the same mesh: " + bad[1])
            # where a family holds several user chops, which one an unchopped wire between them takes is left to the
            # iteration order (only the counts are promised), so whole files are compared for single-law families only
            if not cfg.get("multilaw", True) and canon(again) != canon(obs):
                return ("rewrite:differs", "the second write of the same mesh differs from the first")
    return None


def canon(obs: dict) -> str:
    """canonical form of an observation for equality across schedules/runs: the parsed file with
    floats rounded to 9 significant digits (so that '1' and '1.0' are the same file)"""
    import json

    if obs["outcome"] != "Written":
        return obs["outcome"]

    def norm(x):
        if isinstance(x, float):
            return float(f"{x:.9g}")
        if isinstance(x, (list, tuple)):
            return [norm(y) for y in x]
        if isinstance(x, dict):
            return {k: norm(v) for k, v in x.items()}
        return x

    return json.dumps(norm(obs["file"]), sort_keys=True)
