"""The repository's example scripts as recorded executions.

Every example under <repo>/examples that writes a mesh is run unmodified in a subprocess (its Mesh.write is redirected to
a scratch file, nothing is written into the repository); each written dictionary is parsed and abstracted into a record
for File.tla (well-formedness of any blockMeshDict) and for SizesJudge.tla (cell sizes on shared edges), and TLC accepts
or rejects it clause by clause.  Each property's check takes the clauses that are its own.
"""

from __future__ import annotations

import concurrent.futures
import json
import os
import shutil
import subprocess
import sys
from typing import Dict, List, Optional

from . import bmd, hexref
from .common import REPO, Ctx, MachineryError
from .renderlib import vcross, vdist, vdot, vsub
from .tlc import run_tlc

RUNNER = r'''
import sys, os, runpy, json, warnings
warnings.simplefilter("ignore")
sys.path.insert(0, sys.argv[1])
import classy_blocks as cb
script, out = sys.argv[2], sys.argv[3]
writes = []
orig = cb.Mesh.write
def write(self, output_path, debug_path=None, **kw):
    path = out + ".%d.bmd" % len(writes)
    orig(self, path)
    writes.append(path)
cb.Mesh.write = write
os.chdir(os.path.dirname(script))
sys.path.insert(0, os.path.dirname(script))
import io, contextlib
try:
    with contextlib.redirect_stdout(io.StringIO()):
        runpy.run_path(script, run_name="__main__")
    print(json.dumps({"writes": writes}))
except BaseException as e:
    print(json.dumps({"writes": writes, "error": type(e).__name__, "msg": str(e)[:300]}))
'''

# examples that take more than a few seconds (optimisation, large assemblies): thorough tier only
SLOW = {"complex/airfoil/airfoil.py", "complex/cyclone/cyclone.py", "complex/gear/gear.py", "optimization/diffuser_free.py",
        "optimization/diffuser_line.py", "stack/fusilli.py"}

FILE_CLAUSES = {
    "C01": {"CountsAgree", "CountsPositive"},
    "C05": {"OnePerPoint", "NoOrphans"},
    "C06": {"Indices", "PatchQuadsOuter", "PatchQuadsOnce", "PatchNamesOnce", "MergedExist", "FacesAreSides", "LabelsDefined"},
    "C07": {"EdgesOnBlocks", "EdgesOnce"},
    "C11": {"RightHanded", "WholeSides", "SidesTwice"},
}


def scripts(repo: str) -> List[str]:
    root = os.path.join(repo, "examples")
    out = []
    for d, _, files in os.walk(root):
        for f in sorted(files):
            if f.endswith(".py"):
                path = os.path.join(d, f)
                with open(path, encoding="utf-8") as fh:
                    if ".write(" in fh.read():
                        out.append(os.path.relpath(path, root))
    return sorted(out)


def run_all(ctx: Ctx, tier: str) -> List[dict]:
    """runs the examples (a scratch copy of the directory) and returns [{name, error, files: [text, ...]}]"""
    work = os.path.join(ctx.tmp, "examples_run")
    if os.path.exists(work):
        shutil.rmtree(work)
    shutil.copytree(os.path.join(REPO, "examples"), os.path.join(work, "examples"))
    runner = os.path.join(work, "runner.py")
    with open(runner, "w", encoding="utf-8") as f:
        f.write(RUNNER)
    names = [n for n in scripts(REPO) if tier == "thorough" or n not in SLOW]
    if not names:
        raise MachineryError("no example scripts found")

    def one(name: str) -> dict:
        out = os.path.join(work, "out_" + name.replace("/", "_"))
        try:
            proc = subprocess.run([sys.executable, runner, os.path.join(REPO, "src"), os.path.join(work, "examples", name), out],
                                  capture_output=True, text=True, timeout=1500, check=False)
            line = [l for l in proc.stdout.splitlines() if l.startswith("{")]
            res = json.loads(line[-1]) if line else {"writes": [], "error": "NoOutput", "msg": proc.stderr[-300:]}
        except subprocess.TimeoutExpired:
            res = {"writes": [], "error": "Timeout", "msg": ""}
        files = []
        for p in res["writes"]:
            with open(p, encoding="utf-8") as fh:
                files.append(fh.read())
        return {"name": name, "error": res.get("error"), "msg": res.get("msg", ""), "files": files}

    with concurrent.futures.ThreadPoolExecutor(max_workers=12) as pool:
        return list(pool.map(one, names))


def jacobians(pts: List[List[float]]) -> List[bool]:
    out = []
    for c in range(8):
        x, y, z = hexref.XYZ[c]
        nb = []
        for axis in range(3):
            q = [x, y, z]
            q[axis] = 1 - q[axis]
            d = vsub(pts[hexref.XYZ.index(tuple(q))], pts[c])
            nb.append(d if [x, y, z][axis] == 0 else [-v for v in d])
        out.append(vdot(vcross(nb[0], nb[1]), nb[2]) > 0)
    return out


def file_record(rid: int, parsed: dict) -> dict:
    V = [list(v["p"]) for v in parsed["vertices"]]
    size = max((vdist(p, V[0]) for p in V), default=1.0) or 1.0
    # position classes: same class = within the merge tolerance
    cls: List[int] = []
    reps: List[List[float]] = []
    for p in V:
        for k, q in enumerate(reps):
            if vdist(p, q) < 1e-7 * max(1.0, size) * 2:
                cls.append(k)
                break
        else:
            reps.append(p)
            cls.append(len(reps) - 1)
    nv = len(V)
    jac = []
    for b in parsed["blocks"]:
        if all(0 <= i < nv for i in b["v"]):
            jac.append(jacobians([V[i] for i in b["v"]]))
        else:
            jac.append([True] * 8)
    return {
        "id": rid, "nv": nv, "vcls": cls, "vproj": [sorted(v["proj"]) for v in parsed["vertices"]],
        "blocks": [{"v": b["v"], "n": b["n"]} for b in parsed["blocks"]], "jac": jac,
        "edges": [{"v1": e["v1"], "v2": e["v2"], "kind": e["kind"], "labels": sorted(e["data"]) if e["kind"] == "project" else []}
                  for e in parsed["edges"]],
        "patches": [{"name": p["name"], "quads": p["quads"]} for p in parsed["boundary"]],
        "merged": parsed["merge"], "faces": [{"quad": f["quad"], "label": f["label"]} for f in parsed["faces"]],
        "geom": sorted(parsed["geometry"]),
    }


def judge_examples(ctx: Ctx, prop: str) -> None:
    """runs the examples and reports the clauses that belong to `prop`"""
    from .props.c04 import record_from_file

    results = run_all(ctx, ctx.tier)
    recs, sizes, names = [], [], {}
    for res in results:
        ctx.evaluated(f"example:{res['name']}")
        if res["error"]:
            if prop == "C11":
                ctx.violation(f"example-fails:{res['name']}:{res['error']}", f"examples/{res['name']} raised {res['error']}: {res['msg']}",
                              {"example": res["name"]})
            continue
        for k, text in enumerate(res["files"]):
            try:
                parsed = bmd.parse_blockmeshdict(text)
            except Exception as err:  # pylint: disable=broad-except
                if prop == "C06":
                    ctx.violation(f"example-unparsable:{res['name']}", f"the dictionary written by examples/{res['name']} does not parse: {err}",
                                  {"example": res["name"]})
                continue
            rid = len(recs) + 1
            names[rid] = res["name"]
            recs.append(file_record(rid, parsed))
            if prop == "C04" and len(parsed["blocks"]) <= 150:
                try:
                    sizes.append(record_from_file(rid, parsed, [[[0, 0] for _ in range(3)] for _ in parsed["blocks"]]))
                except Exception as err:  # pylint: disable=broad-except
                    ctx.violation(f"example-undecodable:{res['name']}", f"gradings of examples/{res['name']} cannot be decoded: {err}",
                                  {"example": res["name"]})
    if not recs:
        raise MachineryError("no example produced a dictionary")
    if prop == "C04":
        path = os.path.join(ctx.tmp, "example_sizes.json")
        with open(path, "w", encoding="utf-8") as f:
            json.dump({"recs": sizes}, f)
        res = run_tlc("SizesJudge", "SizesJudge.cfg", env={"VERIF_TRACE_FILE": path}, workers=1, timeout=1800)
        ctx.add_tlc(res)
        verdicts = {v["id"]: v["fails"] for v in res.records if "id" in v}
        if len(verdicts) != len(sizes):
            raise MachineryError(f"SizesJudge judged {len(verdicts)} of {len(sizes)} example records")
        for r in sizes:
            ctx.validated()
            for c in verdicts[r["id"]]:
                ctx.violation(f"example:{c}:{names[r['id']]}", f"examples/{names[r['id']]}: SizesJudge clause {c} rejected the written gradings",
                              {"example": names[r["id"]]})
        return
    path = os.path.join(ctx.tmp, "example_files.json")
    with open(path, "w", encoding="utf-8") as f:
        json.dump({"recs": recs}, f)
    res = run_tlc("File", "File.cfg", env={"VERIF_TRACE_FILE": path}, workers=1, timeout=1800)
    ctx.add_tlc(res)
    verdicts = {v["id"]: v["fails"] for v in res.records if "id" in v}
    if len(verdicts) != len(recs):
        raise MachineryError(f"File.tla judged {len(verdicts)} of {len(recs)} example records")
    mine = FILE_CLAUSES[prop]
    for r in recs:
        ctx.validated()
        for c in verdicts[r["id"]]:
            if c in mine:
                ctx.violation(f"example:{c}:{names[r['id']]}", f"examples/{names[r['id']]}: File.tla clause {c} rejected the written dictionary",
                              {"example": names[r["id"]], "clause": c})
