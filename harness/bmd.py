"""Stand-alone blockMeshDict / legacy-VTK reader (no classy_blocks import).

A small OpenFOAM-dictionary tokenizer + recursive parser, then an
interpretation of the blockMeshDict sections into plain Python data:

 {"settings": {key: str}, "geometry": {label: [str]},
  "vertices": [{"p": (x,y,z), "proj": [labels]}],
  "blocks": [{"v": [8 int], "zone": str, "n": [3 int], "kind": "simple"|"edge", "g": [3 or 12 specs]}],
  "edges": [{"kind": str, "v1": int, "v2": int, "data": point | [points] | [labels]}],
  "faces": [{"quad": [4 int], "label": str}],
  "boundary": [{"name": str, "type": str, "settings": [str], "quads": [[4 int]]}],
  "default": None | {"name": str, "type": str},
  "merge": [[master, slave]]}

A grading spec is a list of sections [length_ratio, count_ratio, expansion];
a plain number g is returned as [[1.0, 1.0, g]].
"""

from __future__ import annotations

import re
from typing import Any, Dict, List, Tuple


class ParseError(Exception):
    pass


_TOKEN = re.compile(r"""\s*(?:(//[^\n]*)|(/\*.*?\*/)|([(){};])|("(?:[^"\\]|\\.)*")|([^\s(){};]+))""", re.S)


def tokenize(text: str) -> List[str]:
    pos = 0
    toks: List[str] = []
    n = len(text)
    while pos < n:
        m = _TOKEN.match(text, pos)
        if not m:
            if text[pos:].strip() == "":
                break
            raise ParseError(f"cannot tokenize at {pos}: {text[pos:pos+40]!r}")
        pos = m.end()
        if m.group(1) or m.group(2):
            continue
        toks.append(m.group(3) or m.group(4) or m.group(5))
    return toks


class _P:
    def __init__(self, toks: List[str]):
        self.t = toks
        self.i = 0

    def peek(self):
        return self.t[self.i] if self.i < len(self.t) else None

    def next(self):
        tok = self.peek()
        if tok is None:
            raise ParseError("unexpected end of file")
        self.i += 1
        return tok

    def expect(self, tok):
        got = self.next()
        if got != tok:
            raise ParseError(f"expected {tok!r}, got {got!r} at token {self.i}")

    def parse_list(self) -> list:
        """after '(' has been consumed"""
        out: list = []
        while True:
            tok = self.next()
            if tok == ")":
                return out
            if tok == "(":
                out.append(self.parse_list())
            elif tok == "{":
                out.append(self.parse_dict_body())
            elif tok in (";", "}"):
                raise ParseError(f"unexpected {tok!r} inside list")
            else:
                out.append(tok)

    def parse_dict_body(self) -> list:
        """after '{' consumed: returns list of entries (key, values...) until '}'"""
        entries = []
        while True:
            tok = self.peek()
            if tok == "}":
                self.next()
                return entries
            entries.append(self.parse_entry())

    def parse_entry(self) -> Tuple[str, Any]:
        key = self.next()
        if key in ("(", ")", "{", "}", ";"):
            raise ParseError(f"unexpected {key!r} at start of entry")
        vals: list = []
        while True:
            tok = self.next()
            if tok == ";":
                return (key, vals)
            if tok == "(":
                vals.append(self.parse_list())
            elif tok == "{":
                body = self.parse_dict_body()
                # optional trailing ';' after a dictionary
                if self.peek() == ";":
                    self.next()
                return (key, {"__dict__": body} if not vals else vals + [{"__dict__": body}])
            elif tok in (")", "}"):
                raise ParseError(f"unexpected {tok!r} in entry {key}")
            else:
                vals.append(tok)


def parse_foam(text: str) -> List[Tuple[str, Any]]:
    p = _P(tokenize(text))
    entries = []
    while p.peek() is not None:
        entries.append(p.parse_entry())
    return entries


def _num(x) -> float:
    return float(x)


def _point(lst) -> Tuple[float, float, float]:
    if not (isinstance(lst, list) and len(lst) == 3):
        raise ParseError(f"not a point: {lst}")
    return (float(lst[0]), float(lst[1]), float(lst[2]))


def _spec(g) -> List[List[float]]:
    if isinstance(g, list):
        secs = []
        for s in g:
            if not (isinstance(s, list) and len(s) == 3):
                raise ParseError(f"bad multi-grading section {s}")
            secs.append([float(s[0]), float(s[1]), float(s[2])])
        return secs
    return [[1.0, 1.0, float(g)]]


def parse_blockmeshdict(text: str) -> Dict[str, Any]:
    entries = parse_foam(text)
    out: Dict[str, Any] = {"settings": {}, "geometry": {}, "vertices": [], "blocks": [], "edges": [], "faces": [],
                           "boundary": [], "default": None, "merge": [], "sections": []}
    for key, val in entries:
        out["sections"].append(key)
        if key == "FoamFile":
            d = dict(val["__dict__"])
            if d.get("object") != ["blockMeshDict"]:
                raise ParseError("FoamFile.object is not blockMeshDict")
        elif key == "geometry":
            for label, body in val["__dict__"]:
                props = []
                for k, v in body["__dict__"]:
                    props.append(" ".join([k] + [_flat(x) for x in v]))
                out["geometry"][label] = props
        elif key == "vertices":
            items = val[0]
            i = 0
            while i < len(items):
                if items[i] == "project":
                    out["vertices"].append({"p": _point(items[i + 1]), "proj": list(items[i + 2])})
                    i += 3
                else:
                    out["vertices"].append({"p": _point(items[i]), "proj": []})
                    i += 1
        elif key == "blocks":
            items = val[0]
            i = 0
            while i < len(items):
                if items[i] != "hex":
                    raise ParseError(f"expected hex, got {items[i]}")
                v = [int(x) for x in items[i + 1]]
                i += 2
                zone = ""
                if not isinstance(items[i], list):
                    zone = items[i]
                    i += 1
                n = [int(x) for x in items[i]]
                kind = items[i + 1]
                g = items[i + 2]
                i += 3
                if len(v) != 8 or len(n) != 3:
                    raise ParseError("hex needs 8 vertices and 3 counts")
                if kind == "simpleGrading":
                    if len(g) != 3:
                        raise ParseError("simpleGrading needs 3 entries")
                    out["blocks"].append({"v": v, "zone": zone, "n": n, "kind": "simple", "g": [_spec(x) for x in g]})
                elif kind == "edgeGrading":
                    if len(g) != 12:
                        raise ParseError("edgeGrading needs 12 entries")
                    out["blocks"].append({"v": v, "zone": zone, "n": n, "kind": "edge", "g": [_spec(x) for x in g]})
                else:
                    raise ParseError(f"unknown grading kind {kind}")
        elif key == "edges":
            items = val[0]
            i = 0
            while i < len(items):
                kind = items[i]
                v1, v2 = int(items[i + 1]), int(items[i + 2])
                data = items[i + 3]
                i += 4
                if kind == "arc":
                    d: Any = _point(data)
                elif kind in ("spline", "polyLine", "BSpline"):
                    d = [_point(p) for p in data]
                elif kind == "project":
                    d = list(data)
                else:
                    raise ParseError(f"unknown edge kind {kind}")
                out["edges"].append({"kind": kind, "v1": v1, "v2": v2, "data": d})
        elif key == "faces":
            items = val[0]
            i = 0
            while i < len(items):
                if items[i] != "project":
                    raise ParseError("faces: expected project")
                out["faces"].append({"quad": [int(x) for x in items[i + 1]], "label": items[i + 2]})
                i += 3
        elif key == "boundary":
            items = val[0]
            i = 0
            while i < len(items):
                name = items[i]
                body = items[i + 1]
                i += 2
                if not isinstance(body, list):
                    raise ParseError("boundary: patch body must be a dictionary")
                ptype = None
                settings = []
                quads = None
                for k, v in body:
                    if k == "type" and ptype is None:
                        ptype = _flat(v[0]) if v else ""
                    elif k == "faces":
                        quads = [[int(x) for x in q] for q in v[0]]
                    else:
                        settings.append(" ".join([k] + [_flat(x) for x in v]))
                if quads is None:
                    raise ParseError(f"patch {name} has no faces")
                out["boundary"].append({"name": name, "type": ptype, "settings": settings, "quads": quads})
        elif key == "defaultPatch":
            d = dict(val["__dict__"])
            out["default"] = {"name": _flat(d["name"][0]), "type": _flat(d["type"][0])}
        elif key == "mergePatchPairs":
            out["merge"] = [[_flat(x) for x in pair] for pair in val[0]]
        else:
            out["settings"][key] = " ".join(_flat(x) for x in val)
    return out


def _flat(x) -> str:
    if isinstance(x, list):
        return "(" + " ".join(_flat(y) for y in x) + ")"
    if isinstance(x, dict):
        return "{...}"
    return str(x)


def parse_vtk(text: str) -> Dict[str, Any]:
    """Legacy ASCII unstructured-grid VTK as written by classy_blocks' debug writer."""
    lines = [ln.strip() for ln in text.splitlines()]
    out: Dict[str, Any] = {"points": [], "cells": [], "cell_types": []}
    i = 0
    while i < len(lines):
        ln = lines[i]
        if ln.startswith("POINTS"):
            n = int(ln.split()[1])
            nums: List[float] = []
            i += 1
            while len(nums) < 3 * n:
                nums += [float(x) for x in lines[i].split()]
                i += 1
            out["points"] = [tuple(nums[3 * k: 3 * k + 3]) for k in range(n)]
            continue
        if ln.startswith("CELLS"):
            n = int(ln.split()[1])
            for k in range(n):
                parts = [int(x) for x in lines[i + 1 + k].split()]
                if parts[0] != len(parts) - 1:
                    raise ParseError("VTK cell size mismatch")
                out["cells"].append(parts[1:])
            i += 1 + n
            continue
        if ln.startswith("CELL_TYPES"):
            n = int(ln.split()[1])
            out["cell_types"] = [int(lines[i + 1 + k]) for k in range(n)]
            i += 1 + n
            continue
        i += 1
    return out
