"""Thin driver around TLC: run a spec+cfg, collect statistics and PrintT'd JSON records."""

from __future__ import annotations

import json
import os
import re
import shutil
import subprocess
import tempfile
import time
from dataclasses import dataclass, field
from typing import Dict, List, Optional

from .common import SPECS, MachineryError

JAR = "/opt/veriftools/tla/tla2tools.jar:/opt/veriftools/tla/CommunityModules-deps.jar"

_RE_STATES = re.compile(r"(\d+) states generated, (\d+) distinct states found")
_RE_SIM = re.compile(r"The number of states generated: (\d+)")


@dataclass
class TlcResult:
    spec: str
    cfg: str
    mode: str
    out: str
    wall: float
    generated: int = 0
    distinct: int = 0
    records: List[dict] = field(default_factory=list)
    ok: bool = True
    error: str = ""


def _parse_records(out: str) -> List[dict]:
    recs = []
    seen = set()
    for line in out.splitlines():
        line = line.strip()
        if line.startswith('"{') and line.endswith('}"'):
            if line in seen:
                continue
            seen.add(line)
            try:
                recs.append(json.loads(json.loads(line)))
            except json.JSONDecodeError:
                # interleaved output from several workers; caller should use workers=1 for emission
                raise MachineryError(f"cannot parse TLC record: {line[:200]}")
    return recs


def run_tlc(
    spec: str,
    cfg: str,
    *,
    env: Optional[Dict[str, str]] = None,
    workers: int = 1,
    timeout: int = 600,
    simulate: Optional[str] = None,
    depth: Optional[int] = None,
    seed: Optional[int] = None,
    extra: Optional[List[str]] = None,
    cfg_text: Optional[str] = None,
    expect_ok: bool = True,
    heap: str = "4g",
) -> TlcResult:
    """Run TLC on specs/<spec>.tla with specs/<cfg> (or an ad-hoc cfg_text).

    expect_ok: raise MachineryError if TLC reports any error (invariant violated,
    deadlock, parse error). With expect_ok=False the caller inspects .ok/.error
    (used when a counterexample is the expected outcome).
    """
    meta = tempfile.mkdtemp(prefix="tlcmeta_")
    try:
        cfg_path = os.path.join(SPECS, cfg)
        if cfg_text is not None:
            cfg_path = os.path.join(meta, cfg)
            with open(cfg_path, "w", encoding="utf-8") as f:
                f.write(cfg_text)
        cmd = [
            "java", f"-Xmx{heap}", "-XX:+UseParallelGC", "-cp", JAR, "tlc2.TLC",
            "-workers", str(workers), "-metadir", os.path.join(meta, "m"), "-noGenerateSpecTE",
            "-config", cfg_path,
        ]
        if simulate is not None:
            cmd += ["-simulate", simulate]
        if depth is not None:
            cmd += ["-depth", str(depth)]
        if seed is not None:
            cmd += ["-seed", str(seed)]
        if extra:
            cmd += extra
        cmd.append(os.path.join(SPECS, spec + ".tla"))
        e = dict(os.environ)
        if env:
            e.update(env)
        t0 = time.time()
        try:
            proc = subprocess.run(cmd, cwd=SPECS, env=e, capture_output=True, text=True, timeout=timeout, check=False)
        except subprocess.TimeoutExpired as err:
            subprocess.run(["pkill", "-f", "tlc2[.]TLC.*" + re.escape(meta)], check=False)
            raise MachineryError(f"TLC timed out after {timeout}s on {spec}/{cfg}") from err
        wall = time.time() - t0
        out = proc.stdout + "\n" + proc.stderr
        res = TlcResult(spec=spec, cfg=cfg, mode="simulate" if simulate else "bfs", out=out, wall=wall)
        m = None
        for m in _RE_STATES.finditer(out):
            pass
        if m:
            res.generated, res.distinct = int(m.group(1)), int(m.group(2))
        else:
            m2 = _RE_SIM.search(out)
            if m2:
                res.generated = int(m2.group(1))
                res.distinct = int(m2.group(1))
        if "Error:" in out or proc.returncode not in (0,):
            res.ok = False
            idx = out.find("Error:")
            res.error = out[idx: idx + 1500] if idx >= 0 else f"exit {proc.returncode}: {out[-1500:]}"
        if expect_ok and not res.ok:
            raise MachineryError(f"TLC failed on {spec}/{cfg}: {res.error}")
        res.records = _parse_records(out)
        return res
    finally:
        shutil.rmtree(meta, ignore_errors=True)


def sany(spec: str) -> None:
    proc = subprocess.run(
        ["java", "-cp", JAR, "tla2sany.SANY", os.path.join(SPECS, spec + ".tla")],
        cwd=SPECS, capture_output=True, text=True, timeout=120, check=False,
    )
    out = proc.stdout + proc.stderr
    if proc.returncode != 0 or "*** Errors" in out or "Fatal" in out or "rror" in out.replace("Semantic errors:\n\n", ""):
        if "Semantic processing of module" in out and "*** Errors" not in out and "Fatal" not in out and proc.returncode == 0:
            return
        raise MachineryError(f"SANY failed on {spec}: {out[-1500:]}")
