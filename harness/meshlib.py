"""Replay of Mesh.tla histories into the real Mesh API and canonical comparison of written files."""

from __future__ import annotations

import os
from typing import Any, Dict, List

from . import bmd

DELTA = (0.13, 0.07, 0.11)
# where the model stands and how far a "moved" vertex goes: near the origin with moves of a tenth of a block, or far away
# with moves of half a hundredth (still five orders of magnitude above the merge tolerance, but small RELATIVE to the coordinates)
PLACEMENT = {"offset": (0.0, 0.0, 0.0), "scale": 1.0}
FAR = {"offset": (2000.0, -3000.0, 1000.0), "scale": 0.05}
NEAR = {"offset": (0.0, 0.0, 0.0), "scale": 1.0}


def place(where: dict) -> None:
    PLACEMENT.update(where)


def delta():
    return tuple(d * PLACEMENT["scale"] for d in DELTA)


def pos_coords(p: int):
    m, r = divmod(p, 1000)
    z, r = divmod(r, 100)
    y, x = divmod(r, 10)
    o, d = PLACEMENT["offset"], delta()
    return (o[0] + x + d[0] * m, o[1] + y + d[1] * m, o[2] + z + d[2] * m)


def base_pos(o: int, k: int) -> int:
    x = o if k in (2, 3, 6, 7) else o - 1
    y = 1 if k in (3, 4, 7, 8) else 0
    z = 1 if k > 4 else 0
    return x + 10 * y + 100 * z


def make_op(o: int, nops: int, positions: List[int], curved: bool = True):
    import classy_blocks as cb

    pts = [pos_coords(p) for p in positions]
    op = cb.Loft(cb.Face(pts[:4]), cb.Face(pts[4:]))
    if nops == 1:
        for a in range(3):
            op.chop(a, count=2 + a)
    elif o == nops or (PLACEMENT.get("variant") == "B" and nops >= 3 and o == 1):
        # (variant B, three operations: the first and the last are both chopped by the same cell size, the one between them
        #  takes its cells from both - once a move gives them different counts the model cannot be written any more,
        #  neither from this history nor as a fresh model)
        op.chop(0, count=2)
        # the LAST operation of the row is the only one chopped across: cells of a given first size - the count (5 on the
        # unit edges, 4 once a vertex at their near end has moved up) and the grading depend on the lengths of the edges at
        # the time of writing
        op.chop(1, start_size=1 / 4.01, preserve="start_size")
        op.chop(2, count=4)
    else:
        # every other operation takes its cells across (axes 1 and 2) from its neighbour - directly or through another
        # operation that does the same - and is added to the mesh before the chopped one; without the last operation the
        # model cannot be graded (then neither can the fresh model)
        op.chop(0, count=2)
    if o == 1:
        op.set_patch("left", "inlet")
    if o == nops:
        op.set_patch("right", "outlet")
    op.set_patch("top", "walls")
    op.set_cell_zone(f"zone{o}")
    if curved:
        # a projected side, an arc on the top face and a spline on a side edge: stale faces/edges after
        # clear/delete/backport would show in the file
        op.project_side("front", "geo")
        # corners shared with the neighbours carry a projection of their own from either side: a vertex two operations
        # share is projected to both labels, and to one of them only once the other operation is gone
        for c in (5, 6):
            op.project_corner(c, "geoR")
        for c in (4, 7):
            op.project_corner(c, "geoL")
        # edge data is user data: it stays where the user put it, whatever happens to the vertices later
        base = [pos_coords(base_pos(o, k)) for k in range(1, 9)]
        mid = [(base[4][i] + base[5][i]) / 2 for i in range(3)]
        op.top_face.add_edge(0, cb.Arc([mid[0], mid[1] - 0.2, mid[2] + 0.05]))
        # an arc given by its centre: its arc point is DERIVED from where the two vertices are when it is written
        m01 = [(base[0][i] + base[1][i]) / 2 for i in range(3)]
        op.bottom_face.add_edge(0, cb.Origin([m01[0], m01[1] + 0.8, m01[2] - 0.1]))
        a, b = base[2], base[6]
        op.add_side_edge(2, cb.Spline([[a[i] + (b[i] - a[i]) * t + (0.1 if i == 1 else 0.0) for i in range(3)] for t in (0.3, 0.7)]))
    return op


def _round(x, nd=7):
    if isinstance(x, float):
        r = round(x, nd)
        return 0.0 if r == 0 else r
    if isinstance(x, (list, tuple)):
        return [_round(y, nd) for y in x]
    return x


def canon_file(f: Dict[str, Any]) -> Dict[str, Any]:
    """canonical, numbering-independent form of a parsed blockMeshDict (for equality of two files)"""
    V = [tuple(_round(list(v["p"]))) for v in f["vertices"]]

    def vp(i):
        return list(V[i]) if 0 <= i < len(V) else ["bad-index", i]

    blocks = [{"v": [vp(i) for i in b["v"]], "zone": b["zone"], "n": b["n"], "kind": b["kind"],
               "g": [[[float(f"{x:.8g}") for x in sec] for sec in spec] for spec in b["g"]]} for b in f["blocks"]]
    edges = []
    for e in f["edges"]:
        a, b2 = vp(e["v1"]), vp(e["v2"])
        data = e["data"]
        if e["kind"] in ("spline", "polyLine"):
            data = [list(_round(list(p))) for p in data]
            if a > b2:
                data = data[::-1]
        elif e["kind"] == "arc":
            data = list(_round(list(data)))
        if a > b2:
            a, b2 = b2, a
        edges.append([e["kind"], a, b2, data])
    edges.sort(key=repr)
    faces = sorted([[sorted((vp(i) for i in q["quad"]), key=repr), q["label"]] for q in f["faces"]], key=repr)
    boundary = {}
    for p in f["boundary"]:
        if not p["quads"]:
            continue
        boundary[p["name"]] = {"type": p["type"], "settings": p["settings"],
                               "quads": sorted([sorted((vp(i) for i in q), key=repr) for q in p["quads"]], key=repr)}
    verts = sorted([[list(V[i]), sorted(v["proj"])] for i, v in enumerate(f["vertices"])], key=repr)
    return {"vertices": verts, "blocks": blocks, "edges": edges, "faces": faces, "boundary": boundary,
            "default": f["default"], "merge": f["merge"], "geometry": f["geometry"], "settings": f["settings"]}


def write_and_parse(mesh, tmpdir: str, tag: str) -> Dict[str, Any]:
    path = os.path.join(tmpdir, f"{tag}.bmd")
    if os.path.exists(path):
        os.remove(path)
    try:
        mesh.write(path)
    except Exception as err:  # pylint: disable=broad-except
        return {"error": type(err).__name__, "msg": str(err)[:200]}
    with open(path, encoding="utf-8") as f:
        text = f.read()
    try:
        return {"file": canon_file(bmd.parse_blockmeshdict(text))}
    except Exception as err:  # pylint: disable=broad-except
        return {"error": "Unparsable:" + type(err).__name__, "msg": str(err)[:200]}


def new_mesh():
    import classy_blocks as cb

    mesh = cb.Mesh()
    mesh.add_geometry({"geo": ["type searchablePlane", "planeType pointAndNormal", "point (0 0 0)", "normal (0 1 0)"]})
    mesh.add_geometry({"geoL": ["type searchablePlane", "planeType pointAndNormal", "point (0 0 1)", "normal (0 0 1)"]})
    mesh.add_geometry({"geoR": ["type searchablePlane", "planeType pointAndNormal", "point (0 0 1)", "normal (0 0 1)"]})
    return mesh


def build_fresh(fresh: dict, nops: int):
    import classy_blocks as cb

    mesh = new_mesh()
    for entry in fresh["ops"]:
        mesh.add(make_op(entry["op"], nops, entry["pos"]))
    apply_settings(mesh, fresh)
    return mesh


def apply_settings(mesh, fresh: dict) -> None:
    for name in sorted(fresh["pmod"]):
        kind, ws = fresh["pmod"][name]
        mesh.modify_patch(name, kind, ["foo bar"] if ws else None)
    if fresh["dflt"] != "none":
        mesh.set_default_patch("dflt", fresh["dflt"])
    for pair in fresh["merged"]:
        mesh.merge_patches(pair[0], pair[1])


def first_diff(a, b, path="") -> str:
    if type(a) != type(b):
        return f"{path}: {a!r} vs {b!r}"
    if isinstance(a, dict):
        for k in sorted(set(a) | set(b)):
            if k not in a or k not in b:
                return f"{path}/{k}: present in only one file"
            d = first_diff(a[k], b[k], f"{path}/{k}")
            if d:
                return d
        return ""
    if isinstance(a, list):
        if len(a) != len(b):
            return f"{path}: {len(a)} vs {len(b)} entries"
        for i, (x, y) in enumerate(zip(a, b)):
            d = first_diff(x, y, f"{path}[{i}]")
            if d:
                return d
        return ""
    return "" if a == b else f"{path}: {a!r} vs {b!r}"
