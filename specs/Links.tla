-------------------------------- MODULE Links --------------------------------
(***************************************************************************)
(* C17: clamps stay on their manifold, links keep their relation - exact   *)
(* lattice instances.  Everything lives in an integer orthogonal frame     *)
(* (u, v, w) of Lattice.tla about an origin O; a point has frame           *)
(* coordinates (a, b, h).                                                  *)
(*   line    : through O along u         foot of (a,b,h) is (a,0,0)        *)
(*   plane   : through O, normal w       foot of (a,b,h) is (a,b,0)        *)
(*   circle  : about axis w through O    radius^2 = (a^2+b^2) |u|^2,       *)
(*                                        height = h |u|                   *)
(*   translation link : follower = leader + (F0 - L0)                      *)
(*   rotation link    : leader turned by k quarter turns about (w, O)      *)
(*                      (also moved radially by factor m, axially by dh):  *)
(*                      follower = F0 turned by k quarter turns            *)
(*   symmetry link    : plane through O with (non-unit) normal u:          *)
(*                      follower = leader with a negated                   *)
(* A link is used repeatedly by the optimizer (leader assigned, update(),  *)
(* again and again): the instance carries a second move (k2 further        *)
(* quarter turns / a second displacement) and a final move back to where   *)
(* the leader started; the follower depends on where the leader is, not on *)
(* how it got there (History).                                             *)
(***************************************************************************)
EXTENDS Lattice, Json

CONSTANTS FrameIdx, OriginIdx, CoordIdx   \* CoordIdx selects the set of small integers used as frame coordinates
CoordSets == << {-1, 0, 2}, {-2, -1, 0, 1, 3} >>
Coord == CoordSets[CoordIdx]
OriginSeq == << <<0, 0, 0>>, <<4, -3, 7>>, <<-5, 2, 1>> >>

VARIABLES fi, o, L0, F0, k, m, dh, k2
vars == <<fi, o, L0, F0, k, m, dh, k2>>
DSeq == << <<1, 0, 0>>, <<-2, 3, 1>>, <<0, 0, -4>> >>
d == DSeq[1 + ((k + m + k2) % 3)]         \* translations are independent of the turns: taken round-robin
d2 == DSeq[1 + ((k + m + k2 + 1) % 3)]

Trip == Coord \X Coord \X Coord
Init == /\ fi \in FrameIdx /\ o \in { OriginSeq[i] : i \in OriginIdx }
        /\ L0 \in { t \in Trip : t[1] # 0 \/ t[2] # 0 }      \* leader off the axis
        /\ F0 \in { t \in Trip : t[1] # 0 \/ t[2] # 0 }
        /\ L0 # F0
        /\ k \in 0..3 /\ m \in {1, 2} /\ dh \in {0, 2} /\ k2 \in 0..3
Next == UNCHANGED vars
Spec == Init /\ [][Next]_vars

F == Frames[fi]
W(t) == InFrame(F, o, t[1], t[2], t[3])
RECURSIVE Quarter(_, _)
Quarter(t, n) == IF n = 0 THEN t ELSE Quarter(<<-t[2], t[1], t[3]>>, n - 1)      \* counter-clockwise about w

\* leader after its move (rotation case) and expected followers
LRot == LET q == Quarter(L0, k) IN <<m * q[1], m * q[2], q[3] + dh>>
FRot == Quarter(F0, k)
LTrans == Add(W(L0), d)
FTrans == Add(W(F0), d)
FSym == <<-LRot[1], LRot[2], LRot[3]>>

\* second move: k2 further quarter turns of the moved leader / a second displacement
LRot2 == Quarter(LRot, k2)
FRot2 == Quarter(F0, (k + k2) % 4)
LTrans2 == Add(LTrans, d2)
FTrans2 == Add(FTrans, d2)
FSym2 == <<-LRot2[1], LRot2[2], LRot2[3]>>
\* the follower is a function of the leader's position, not of the moves that led there
History == /\ Quarter(Quarter(F0, k), k2) = FRot2
           /\ Quarter(FRot2, (8 - k - k2) % 4) = F0
           /\ Sub(FTrans2, LTrans2) = Sub(W(F0), W(L0))

\* specification-level sanity: a quarter turn keeps radius and height, four of them are the identity
QuarterOK == /\ Quarter(F0, 4) = F0
             /\ FRot[1] * FRot[1] + FRot[2] * FRot[2] = F0[1] * F0[1] + F0[2] * F0[2] /\ FRot[3] = F0[3]
\* a mirror image is as far from the plane as its original, on the other side
MirrorOK == Dot(Sub(W(FSym), o), F.u) = -Dot(Sub(W(LRot), o), F.u) /\ Sub(W(FSym), W(LRot)) = Scale(-2 * LRot[1], F.u)

Record == [ frame |-> [u |-> F.u, v |-> F.v, w |-> F.w, len |-> F.len], origin |-> o,
            l0 |-> W(L0), f0 |-> W(F0), lrot |-> W(LRot), frot |-> W(FRot), k |-> k,
            ltrans |-> LTrans, ftrans |-> FTrans, fsym |-> W(FSym), k2 |-> k2,
            lrot2 |-> W(LRot2), frot2 |-> W(FRot2), ltrans2 |-> LTrans2, ftrans2 |-> FTrans2, fsym2 |-> W(FSym2),
            \* clamp instance: the position L0 and its feet / invariants
            foot_line |-> W(<<L0[1], 0, 0>>), foot_plane |-> W(<<L0[1], L0[2], 0>>),
            radius2 |-> (L0[1] * L0[1] + L0[2] * L0[2]) * F.len * F.len, height |-> L0[3] * F.len * F.len, a |-> L0[1] ]
Emit == PrintT(ToJson(Record))
=============================================================================
