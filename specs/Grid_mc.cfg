SPECIFICATION MSpec
CONSTANTS
  MaxX = 5
  MaxY = 5
  MaxZ = 4
INVARIANT SlicesPartition
CHECK_DEADLOCK FALSE
