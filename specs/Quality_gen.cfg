SPECIFICATION GenSpec
CONSTRAINT GenEmit
CHECK_DEADLOCK FALSE
