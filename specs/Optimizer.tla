------------------------------- MODULE Optimizer -------------------------------
(***************************************************************************)
(* C13: the clamp-by-clamp minimisation protocol of OptimizerBase with an  *)
(* ADVERSARIAL minimiser.  The minimiser may probe any parameter values    *)
(* (each probe moves the clamped point, its linked followers, and nothing  *)
(* else) and may hit a degenerate cell (an exception) at any probe.  The   *)
(* quality is an arbitrary function of the positions, chosen in Init.      *)
(*                                                                         *)
(* Part 1 (Spec): abstract model, checked exhaustively by TLC.             *)
(* Part 2 (OptimizerJudge.tla): acceptor for recorded executions of the    *)
(* real optimizer: every optimize_clamp step must be one of the Finish    *)
(* outcomes Accept / Rollback / Skip.                                      *)
(***************************************************************************)
EXTENDS Naturals, Sequences, FiniteSets, TLC

CONSTANTS NClamps,      \* clamped points 1..NClamps; point NClamps+1 is unclamped
          NFollow,      \* points NClamps+2 .. NClamps+1+NFollow each follow clamp 1 through a link of their own
          NParams,      \* parameter values 0..NParams-1
          QMax,         \* quality values 0..QMax
          MaxProbes,
          MaxIter,      \* IterationDriver.max_iterations
          TolDen        \* IterationDriver.tolerance = 1 / TolDen (relative to the quality before the first iteration)

Clamps == 1..NClamps
Free == NClamps + 1
Followers == (NClamps + 2)..(NClamps + 1 + NFollow)
Points == 1..(NClamps + 1 + NFollow)
Params == 0..(NParams - 1)
PosVec == [Clamps -> Params]                       \* positions of the clamped points = their parameters
LinkOf(f, p) == (p + f) % NParams                  \* a follower's position is a function of the leader's, its own per link

VARIABLES Q,        \* [PosVec -> 0..QMax] the quality function (environment, fixed per behaviour)
          Bad,      \* set of PosVec at which evaluating the quality raises (degenerate cell)
          pos,      \* [Points -> Params] working positions (grid.points)
          saved,    \* parameters saved at the start of the current clamp step
          pc,       \* "idle" | "sense" | "probing" | "done"
          cur,      \* clamp being optimised
          todo,     \* clamps left in this iteration
          nprobe, failed,
          qStart,   \* grid quality when optimize() started
          mesh,     \* positions of the mesh vertices (updated only by backport)
          iters,    \* IterationDriver: iterations finished
          qIter     \* IterationDriver: quality at the beginning of the current iteration
vars == <<Q, Bad, pos, saved, pc, cur, todo, nprobe, failed, qStart, mesh, iters, qIter>>

Vec(p) == [c \in Clamps |-> p[c]]
Quality(p) == Q[Vec(p)]
\* GridBase.update: the clamped point moves and EVERY link of its junction is updated and written back
Move(p, c, v) == [x \in Points |-> IF x = c THEN v ELSE IF x \in Followers /\ c = 1 THEN LinkOf(x, v) ELSE p[x]]

Init == /\ Q \in [PosVec -> 0..QMax]
        /\ pos = [p \in Points |-> IF p \in Followers THEN LinkOf(p, 0) ELSE 0]
        /\ Bad \in SUBSET (PosVec \ {Vec(pos)})
        /\ saved = 0 /\ pc = "idle" /\ cur = 0 /\ todo = Clamps /\ nprobe = 0 /\ failed = FALSE
        /\ qStart = Quality(pos) /\ mesh = pos
        /\ iters = 0 /\ qIter = Quality(pos)

\* _get_sensitivity: probe around the current parameters, then restore
Sense(c) == /\ pc = "idle" /\ c \in todo
            /\ \E v \in Params : Vec(Move(pos, c, v)) \notin Bad     \* the probe itself is not modelled as failing
            /\ UNCHANGED vars                                           \* net effect: state restored

Start(c) == /\ pc = "idle" /\ c \in todo
            /\ cur' = c /\ saved' = pos[c] /\ pc' = "probing" /\ nprobe' = 0 /\ failed' = FALSE
            /\ UNCHANGED <<Q, Bad, pos, todo, qStart, mesh, iters, qIter>>

Probe(v) == /\ pc = "probing" /\ nprobe < MaxProbes /\ ~failed
            /\ pos' = Move(pos, cur, v)
            /\ failed' = (Vec(pos') \in Bad)            \* the quality evaluation raised
            /\ nprobe' = nprobe + 1
            /\ UNCHANGED <<Q, Bad, saved, pc, cur, todo, qStart, mesh, iters, qIter>>

\* the minimiser returned (or raised): accept if the grid quality improved, else roll back; skip on failure
Finish == /\ pc = "probing"
          /\ LET before == Quality(Move(pos, cur, saved)) IN
             IF failed \/ Vec(pos) \in Bad
             THEN pos' = Move(pos, cur, saved)                                 \* Skip
             ELSE IF Quality(pos) < before THEN pos' = pos                     \* Accept
                  ELSE pos' = Move(pos, cur, saved)                            \* Rollback
          /\ todo' = todo \ {cur} /\ pc' = "idle" /\ cur' = 0
          /\ UNCHANGED <<Q, Bad, saved, nprobe, failed, qStart, mesh, iters, qIter>>

\* IterationDriver.converged, evaluated after an iteration has ended: the iteration limit, or (with at least two iterations
\* on record) a last improvement below tolerance * the quality before the first iteration; an improvement of exactly
\* zero counts as "very small" (VSMALL), so it is below any tolerance
Converged(n, qBegin, qEnd) ==
    \/ n >= MaxIter
    \/ n >= 2 /\ TolDen * (qBegin - qEnd) < qStart
EndIteration == /\ pc = "idle" /\ todo = {}
                /\ iters' = iters + 1
                /\ IF Converged(iters + 1, qIter, Quality(pos))
                   THEN pc' = "done" /\ mesh' = pos /\ UNCHANGED <<todo, qIter>>           \* converged: backport
                   ELSE todo' = Clamps /\ qIter' = Quality(pos) /\ UNCHANGED <<pc, mesh>>    \* another iteration
                /\ UNCHANGED <<Q, Bad, pos, saved, cur, nprobe, failed, qStart>>

Next == (\E c \in Clamps : Sense(c) \/ Start(c)) \/ (\E v \in Params : Probe(v)) \/ Finish \/ EndIteration
Spec == Init /\ [][Next]_vars

\* ---- properties of the design
NeverWorse == pc = "idle" => Quality(pos) <= qStart
UnclampedStill == pos[Free] = 0
FollowerLinked == pc = "idle" => \A f \in Followers : pos[f] = LinkOf(f, pos[1])
NotHalfApplied == pc = "idle" => Vec(pos) \notin Bad
BackportEqual == pc = "done" => mesh = pos
\* the driver: never more than max_iterations, never fewer than two unless the limit is one, and it does end
IterBound == iters <= MaxIter
IterAtLeastTwo == pc = "done" => (iters >= 2 \/ iters = MaxIter)
Terminates == <>(pc = "done")
FairSpec == Spec /\ WF_vars(Next)
StepMonotone == [][ (pc = "probing" /\ pc' = "idle") => Quality(pos') <= Quality(Move(pos, cur, saved)) ]_vars

=============================================================================
