-------------------------------- MODULE Smooth --------------------------------
(***************************************************************************)
(* C15: Laplacian smoothing moves only free interior points, to the        *)
(* average of the points they are connected to by a cell edge.             *)
(*                                                                         *)
(* Topologies: structured quad grids n x m, an unstructured O-grid (core    *)
(* quad + ring of quads, valence-3 points), its refinement with a second   *)
(* ring, structured hex grids n x m x k, and L-shaped quad/hex regions     *)
(* (a grid without one quadrant, unevenly spaced).  Boundary and neighbour *)
(* relations are DEFINED here from the cells:                              *)
(*   a side (quad: edge, hex: face) is a boundary side iff exactly one     *)
(*   cell has it; a boundary point is a point of a boundary side;          *)
(*   two points are neighbours iff they are the ends of a cell edge.       *)
(* GenSpec emits every topology with these relations; JSpec judges what a  *)
(* run of the real smoother did: which points moved, which free points are *)
(* not at their neighbours' average afterwards.                            *)
(***************************************************************************)
EXTENDS Hex, Json, IOUtils

\* ---- cells ---------------------------------------------------------------
QV(n, i, j) == i + (n + 1) * j
QuadGrid(n, m) == { << QV(n, i, j), QV(n, i + 1, j), QV(n, i + 1, j + 1), QV(n, i, j + 1) >> : i \in 0..(n - 1), j \in 0..(m - 1) }
QuadCoords(n, m) == [v \in 0..((n + 1) * (m + 1) - 1) |-> << 2 * (v % (n + 1)), 2 * (v \div (n + 1)), 0 >>]
OGrid == { <<0, 1, 2, 3>>, <<0, 4, 5, 1>>, <<1, 5, 6, 2>>, <<2, 6, 7, 3>>, <<3, 7, 4, 0>> }
OGridCoords == [v \in 0..7 |-> CASE v = 0 -> <<-1, -1, 0>> [] v = 1 -> <<1, -1, 0>> [] v = 2 -> <<1, 1, 0>> [] v = 3 -> <<-1, 1, 0>>
                                  [] v = 4 -> <<-3, -3, 0>> [] v = 5 -> <<3, -3, 0>> [] v = 6 -> <<3, 3, 0>> [] v = 7 -> <<-3, 3, 0>>]
OGrid2 == OGrid \cup { <<4, 8, 9, 5>>, <<5, 9, 10, 6>>, <<6, 10, 11, 7>>, <<7, 11, 8, 4>> }
OGrid2Coords == [v \in 0..11 |-> IF v < 8 THEN OGridCoords[v]
                                 ELSE CASE v = 8 -> <<-6, -6, 0>> [] v = 9 -> <<6, -6, 0>> [] v = 10 -> <<6, 6, 0>> [] v = 11 -> <<-6, 6, 0>>]
HV(n, m, i, j, l) == i + (n + 1) * j + (n + 1) * (m + 1) * l
HexGrid(n, m, k) == { [c \in 1..8 |-> LET q == XYZ(c - 1) IN HV(n, m, i + q[1], j + q[2], l + q[3])] :
                        i \in 0..(n - 1), j \in 0..(m - 1), l \in 0..(k - 1) }
HexCoords(n, m, k) == [v \in 0..((n + 1) * (m + 1) * (k + 1) - 1) |->
                         << 2 * (v % (n + 1)), 2 * ((v \div (n + 1)) % (m + 1)), 2 * (v \div ((n + 1) * (m + 1))) >>]

\* L-shaped regions: the grid without the quadrant i >= a, j >= b (re-entrant corner: a boundary point that three cells
\* meet, one of them with interior sides only), unevenly spaced so that no point is at its neighbours' average by
\* symmetry; point ids are renumbered densely
Range(f) == { f[x] : x \in DOMAIN f }
Stretch == << 0, 2, 5, 7, 12, 14, 19 >>
Rank(S, v) == Cardinality({ u \in S : u < v })
Dense(cells) == LET used == UNION { Range(c) : c \in cells } IN { [q \in DOMAIN c |-> Rank(used, c[q])] : c \in cells }
DenseCoords(cells, coords) == LET used == UNION { Range(c) : c \in cells } IN
                              [r \in 0..(Cardinality(used) - 1) |-> coords[CHOOSE v \in used : Rank(used, v) = r]]
LKeep(n, m, a, b) == { ij \in (0..(n - 1)) \X (0..(m - 1)) : ~(ij[1] >= a /\ ij[2] >= b) }
LQuadRaw(n, m, a, b) == { << QV(n, ij[1], ij[2]), QV(n, ij[1] + 1, ij[2]), QV(n, ij[1] + 1, ij[2] + 1), QV(n, ij[1], ij[2] + 1) >> :
                            ij \in LKeep(n, m, a, b) }
LQuadCoords(n, m) == [v \in 0..((n + 1) * (m + 1) - 1) |-> << Stretch[(v % (n + 1)) + 1], Stretch[(v \div (n + 1)) + 1], 0 >>]
LHexRaw(n, m, k, a, b) == { [c \in 1..8 |-> LET q == XYZ(c - 1) IN HV(n, m, ij[1] + q[1], ij[2] + q[2], l + q[3])] :
                              ij \in LKeep(n, m, a, b), l \in 0..(k - 1) }
LHexCoords(n, m, k) == [v \in 0..((n + 1) * (m + 1) * (k + 1) - 1) |->
                          << Stretch[(v % (n + 1)) + 1], Stretch[((v \div (n + 1)) % (m + 1)) + 1], Stretch[(v \div ((n + 1) * (m + 1))) + 1] >>]

\* star: n quads around one interior point (valence n: more neighbours than a cell has sides); point 0 is the centre, points
\* 1..n the spoke ends, n+1..2n the corners between consecutive spokes; irregular integer coordinates
StarSpoke == << << <<4, 0, 0>>, <<1, 4, 0>>, <<-3, 2, 0>>, <<-3, -3, 0>>, <<2, -4, 0>> >>,
                << <<4, 0, 0>>, <<2, 4, 0>>, <<-2, 3, 0>>, <<-4, 0, 0>>, <<-2, -4, 0>>, <<2, -3, 0>> >> >>
StarCorner == << << <<4, 3, 0>>, <<-2, 5, 0>>, <<-5, 0, 0>>, <<-1, -5, 0>>, <<5, -2, 0>> >>,
                 << <<5, 3, 0>>, <<0, 5, 0>>, <<-5, 3, 0>>, <<-5, -3, 0>>, <<0, -5, 0>>, <<5, -2, 0>> >> >>
Star(n) == { << 0, i, n + i, (i % n) + 1 >> : i \in 1..n }
StarCoords(n) == [v \in 0..(2 * n) |-> IF v = 0 THEN <<0, 0, 0>> ELSE IF v <= n THEN StarSpoke[n - 4][v] ELSE StarCorner[n - 4][v - n]]

\* hexring: eight hexahedra around one axis (two layers of four), each a copy of ONE block turned about its own edge 4-7, so
\* that the axis is local edge 4-7 in every block that touches it (assemblies made by rotating a block, as rings are)
RECURSIVE RotY(_, _)
RotY(k, p) == IF k = 0 THEN p ELSE RotY(k - 1, << p[3], p[2], -p[1] >>)
RingYs == << 0, 1, 3 >>
RingLocal(c, l) == LET q == XYZ(c - 1) IN << q[1], RingYs[l + q[2]], q[3] - 1 >>
RingYIdx(y) == CHOOSE i \in 0..2 : RingYs[i + 1] = y
RingId(p) == (p[1] + 1) + 3 * (p[3] + 1) + 9 * RingYIdx(p[2])
HexRing == { [c \in 1..8 |-> RingId(RotY(k, RingLocal(c, l)))] : k \in 0..3, l \in 1..2 }
HexRingCoords == [v \in 0..26 |-> << 2 * ((v % 3) - 1), 2 * RingYs[(v \div 9) + 1], 2 * (((v \div 3) % 3) - 1) >>]
ASSUME \A cell \in HexRing : \E l \in 0..2 : \E l2 \in 0..2 : {cell[5], cell[8]} = {RingId(<<0, RingYs[l + 1], 0>>), RingId(<<0, RingYs[l2 + 1], 0>>)}

Topology(t) ==
    CASE t.kind = "hexring" -> [dim |-> 3, cells |-> HexRing, coords |-> HexRingCoords]
      [] t.kind = "star" -> [dim |-> 2, cells |-> Star(t.n), coords |-> StarCoords(t.n)]
      [] t.kind = "lquad" -> [dim |-> 2, cells |-> Dense(LQuadRaw(t.n, t.m, t.a, t.b)),
                              coords |-> DenseCoords(LQuadRaw(t.n, t.m, t.a, t.b), LQuadCoords(t.n, t.m))]
      [] t.kind = "lhex" -> [dim |-> 3, cells |-> Dense(LHexRaw(t.n, t.m, t.k, t.a, t.b)),
                             coords |-> DenseCoords(LHexRaw(t.n, t.m, t.k, t.a, t.b), LHexCoords(t.n, t.m, t.k))]
      [] t.kind = "quadgrid" -> [dim |-> 2, cells |-> QuadGrid(t.n, t.m), coords |-> QuadCoords(t.n, t.m)]
      [] t.kind = "ogrid" -> [dim |-> 2, cells |-> OGrid, coords |-> OGridCoords]
      [] t.kind = "ogrid2" -> [dim |-> 2, cells |-> OGrid2, coords |-> OGrid2Coords]
      [] t.kind = "hexgrid" -> [dim |-> 3, cells |-> HexGrid(t.n, t.m, t.k), coords |-> HexCoords(t.n, t.m, t.k)]

\* ---- declarative relations -------------------------------------------------
QuadEdges(c) == { {c[1], c[2]}, {c[2], c[3]}, {c[3], c[4]}, {c[4], c[1]} }
HexFaces(c) == { { c[x + 1] : x \in SideCorners(s) } : s \in SideNames }
HexEdges(c) == { { c[x + 1] : x \in e } : e \in EdgeSet }
SidesOf(dim, c) == IF dim = 2 THEN QuadEdges(c) ELSE HexFaces(c)
EdgesOf(dim, c) == IF dim = 2 THEN QuadEdges(c) ELSE HexEdges(c)
BoundarySides(T) == { s \in UNION { SidesOf(T.dim, c) : c \in T.cells } : Cardinality({ c \in T.cells : s \in SidesOf(T.dim, c) }) = 1 }
Boundary(T) == UNION BoundarySides(T)
Points(T) == UNION { Range(c) : c \in T.cells }
AllEdges(T) == UNION { EdgesOf(T.dim, c) : c \in T.cells }
Neigh(T, v) == { w \in Points(T) : {v, w} \in AllEdges(T) } \ {v}

\* ---- generator ---------------------------------------------------------------
CONSTANTS MaxQ, MaxH
Topos == { [kind |-> "quadgrid", n |-> n, m |-> m, k |-> 0, a |-> 0, b |-> 0] : n \in 1..MaxQ, m \in 1..MaxQ }
         \cup { [kind |-> "ogrid", n |-> 0, m |-> 0, k |-> 0, a |-> 0, b |-> 0], [kind |-> "ogrid2", n |-> 0, m |-> 0, k |-> 0, a |-> 0, b |-> 0] }
         \cup { [kind |-> "hexgrid", n |-> n, m |-> m, k |-> k, a |-> 0, b |-> 0] : n \in 1..MaxH, m \in 1..MaxH, k \in 1..MaxH }
         \cup { [kind |-> "hexring", n |-> 0, m |-> 0, k |-> 0, a |-> 0, b |-> 0] }
         \cup { [kind |-> "star", n |-> n, m |-> 0, k |-> 0, a |-> 0, b |-> 0] : n \in {5, 6} }
         \cup { [kind |-> "lquad", n |-> n, m |-> m, k |-> 0, a |-> a, b |-> b] : n \in 3..MaxQ, m \in 3..MaxQ, a \in 1..(MaxQ - 1), b \in 1..(MaxQ - 1) }
         \cup { [kind |-> "lhex", n |-> n, m |-> m, k |-> k, a |-> a, b |-> b] : n \in 2..(MaxH + 1), m \in 2..(MaxH + 1), k \in 1..MaxH, a \in 1..MaxH, b \in 1..MaxH }
VARIABLE x
GenInit == x \in { t \in Topos : t.kind \in {"lquad", "lhex"} => (t.a < t.n /\ t.b < t.m) }
GenSpec == GenInit /\ [][UNCHANGED x]_x
\* an interior point of a structured grid has 2 * dim neighbours; every point has at least dim
ValenceOK == LET T == Topology(x) IN
             /\ \A v \in Points(T) : Cardinality(Neigh(T, v)) >= T.dim
             \* a re-entrant corner is on the boundary although one of the cells around it has it on interior sides only
             /\ (x.kind = "lquad" \/ (x.kind = "lhex" /\ x.k >= 2)) =>
                  LET bs == BoundarySides(T) IN
                  \E v \in UNION bs : \E c \in T.cells : v \in Range(c) /\ \A sd \in SidesOf(T.dim, c) : v \in sd => sd \notin bs
             \* the one interior point of the ring sits on the axis and has six neighbours, two of them along the axis
             /\ x.kind = "hexring" => (Points(T) \ Boundary(T) = {13} /\ Cardinality(Neigh(T, 13)) = 6 /\ {4, 22} \subseteq Neigh(T, 13))
             \* the centre of a star has more neighbours than a quadrilateral has sides
             /\ x.kind = "star" => Cardinality(Neigh(T, 0)) = x.n /\ 0 \notin Boundary(T)
             /\ x.kind \in {"quadgrid", "hexgrid"} => \A v \in Points(T) \ Boundary(T) : Cardinality(Neigh(T, v)) = 2 * T.dim
GenEmit == LET T == Topology(x) IN
           PrintT(ToJson([topo |-> x, dim |-> T.dim, cells |-> T.cells, coords |-> T.coords,
                          boundary |-> Boundary(T), neigh |-> [v \in Points(T) |-> Neigh(T, v)]]))

\* ---- judge --------------------------------------------------------------------
Recs == JsonDeserialize(IOEnv.VERIF_TRACE_FILE).recs
JInit == LET rs == Recs IN \E i \in 1..Len(rs) : x = rs[i]
JSpec == JInit /\ [][UNCHANGED x]_x
Verdict(r) ==
    LET T == Topology(r.topo)
        fixed == Range(r.fixed)
        moved == Range(r.moved)
        stuck == Range(r.not_at_average)       \* free points that are not at their neighbours' average after smoothing
        free == Points(T) \ (Boundary(T) \cup fixed)
    IN { c \in {"boundary-moved", "fixed-moved", "free-not-averaged", "free-jittered-did-not-move"} :
           CASE c = "boundary-moved" -> moved \cap Boundary(T) # {}
             [] c = "fixed-moved" -> moved \cap fixed # {}
             [] c = "free-not-averaged" -> r.converged_expected /\ stuck \cap free # {}
             [] c = "free-jittered-did-not-move" -> ((Range(r.jittered) \cap free) \ moved) # {} }
JEmit == PrintT(ToJson([id |-> x.id, fails |-> Verdict(x)]))
=============================================================================
