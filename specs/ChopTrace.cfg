SPECIFICATION TSpec
CONSTRAINT Emit2
CHECK_DEADLOCK FALSE
