SPECIFICATION Spec
CONSTRAINT Verdict
CHECK_DEADLOCK FALSE
