--------------------------------- MODULE Arc ---------------------------------
(***************************************************************************)
(* C08: exact circular arcs.  A circle of radius R (in frame units) about  *)
(* the origin of a plane carries the lattice points (a,b), a^2+b^2 = R^2.  *)
(* An instance is a triple (P1, M, P2) of such points with M equidistant   *)
(* from P1 and P2, i.e. M is the exact mid point of one of the two arcs    *)
(* from P1 to P2.  All of the following are exact integers:                *)
(*   hd = P1 . M , hc = P1 x M : half the included angle is atan2(|hc|,hd) *)
(*   s = sign(hc): the arc through M runs counter-clockwise about s*w      *)
(* Expected (statement of C08): the arc given by (angle 2*atan2(|hc|,hd),  *)
(* axis s*w), by (-angle, -s*w) or - when it is the minor arc - by the     *)
(* origin, is the three-point arc through M, of length R * angle.          *)
(***************************************************************************)
EXTENDS Lattice, Json

CONSTANTS Radii, FrameIdx, CentreIdx
CentreSeq == << <<0, 0, 0>>, <<3, -2, 5>>, <<-7, 11, 1>> >>

CirclePts(R) == { p \in (-R..R) \X (-R..R) : p[1] * p[1] + p[2] * p[2] = R * R }
D2(p, q) == (p[1] - q[1]) * (p[1] - q[1]) + (p[2] - q[2]) * (p[2] - q[2])
Dot2(p, q) == p[1] * q[1] + p[2] * q[2]
Cross2(p, q) == p[1] * q[2] - p[2] * q[1]

Triples(R) == { t \in CirclePts(R) \X CirclePts(R) \X CirclePts(R) :
                  /\ t[1] # t[3] /\ t[2] # t[1] /\ t[2] # t[3]
                  /\ D2(t[2], t[1]) = D2(t[2], t[3]) }

VARIABLES R, fi, c, t
vars == <<R, fi, c, t>>
Init == /\ R \in Radii /\ fi \in FrameIdx /\ c \in { CentreSeq[i] : i \in CentreIdx } /\ t \in Triples(R)
Next == UNCHANGED vars
Spec == Init /\ [][Next]_vars

P1 == t[1]
M == t[2]
P2 == t[3]
hd == Dot2(P1, M)
hc == Cross2(P1, M)
\* M is the mid point of an arc: it lies on the perpendicular bisector of the chord and on the circle
MidOK == /\ M[1] * M[1] + M[2] * M[2] = R * R
         /\ Dot2(M, << P2[1] - P1[1], P2[2] - P1[2] >>) = 0
         /\ hc # 0
\* turning P1 by twice the half angle gives P2:  P2 = 2 (P1.M) M / R^2 - P1  (exact)
ReflectOK == /\ R * R * (P2[1] + P1[1]) = 2 * hd * M[1]
             /\ R * R * (P2[2] + P1[2]) = 2 * hd * M[2]
\* minor arc iff the half angle is below 90 degrees
Minor == hd > 0

W(p) == InFrame(Frames[fi], c, p[1], p[2], 0)
Record == [ R |-> R, flen |-> Frames[fi].len, centre |-> c,
            p1 |-> W(P1), m |-> W(M), p2 |-> W(P2), mopp |-> W(<<-M[1], -M[2]>>),
            axis |-> Frames[fi].w, hd |-> hd, hc |-> hc, minor |-> Minor,
            others |-> { [pl |-> y, w |-> W(y)] : y \in { z \in CirclePts(R) : z \notin {P1, P2} } },
            plane |-> [ p1 |-> P1, m |-> M, p2 |-> P2 ] ]
Emit == PrintT(ToJson(Record))
=============================================================================
