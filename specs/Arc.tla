--------------------------------- MODULE Arc ---------------------------------
(***************************************************************************)
(* C08: exact circular arcs.  A circle of radius R (in frame units) about  *)
(* the origin of a plane carries the lattice points (a,b), a^2+b^2 = R^2.  *)
(* An instance is a triple (P1, M, P2) of such points with M equidistant   *)
(* from P1 and P2, i.e. M is the exact mid point of one of the two arcs    *)
(* from P1 to P2.  All of the following are exact integers:                *)
(*   hd = P1 . M , hc = P1 x M : half the included angle is atan2(|hc|,hd) *)
(*   s = sign(hc): the arc through M runs counter-clockwise about s*w      *)
(* Expected (statement of C08): the arc given by (angle 2*atan2(|hc|,hd),  *)
(* axis s*w), by (-angle, -s*w) or - when it is the minor arc - by the     *)
(* origin, is the three-point arc through M, of length R * angle.          *)
(***************************************************************************)
EXTENDS Lattice, Json

CONSTANTS Radii, FrameIdx, CentreIdx,
          WideRadii      \* radii (a subset of Radii) of which only the nearly half circles are taken: 20 |P1.M| < R^2, i.e. the
                         \* included angle (or its complement, which is what an arc given by its centre takes) is above 174 degrees
CentreSeq == << <<0, 0, 0>>, <<3, -2, 5>>, <<-7, 11, 1>> >>

CirclePts(R) == { p \in (-R..R) \X (-R..R) : p[1] * p[1] + p[2] * p[2] = R * R }
D2(p, q) == (p[1] - q[1]) * (p[1] - q[1]) + (p[2] - q[2]) * (p[2] - q[2])
Dot2(p, q) == p[1] * q[1] + p[2] * q[2]
Cross2(p, q) == p[1] * q[2] - p[2] * q[1]

Abs(x) == IF x < 0 THEN -x ELSE x
Triples(P) == { t \in P \X P \X P :
                  /\ t[1] # t[3] /\ t[2] # t[1] /\ t[2] # t[3]
                  /\ D2(t[2], t[1]) = D2(t[2], t[3]) }
\* nearly half circles: P1 and M are lattice points a little less or a little more than a quarter turn apart; the far end
\* P2 = (2 (P1.M) M - R^2 P1) / R^2 is then a rational point (third entry unused)
WidePairs(P, rr) == { << p, m, <<0, 0>> >> : <<p, m>> \in { q \in P \X P : q[1] # q[2] /\ 20 * Abs(Dot2(q[1], q[2])) < rr * rr } }

\* (pts: the lattice points of the circle, computed once per radius - TLC re-evaluates definitions at every use)
VARIABLES R, pts, fi, c, t
vars == <<R, pts, fi, c, t>>
Init == /\ R \in Radii /\ pts = { p : p \in CirclePts(R) } /\ fi \in FrameIdx /\ c \in { CentreSeq[i] : i \in CentreIdx }
        /\ t \in IF R \in WideRadii THEN WidePairs(pts, R) ELSE Triples(pts)
Next == UNCHANGED vars
Spec == Init /\ [][Next]_vars

P1 == t[1]
M == t[2]
Wide == R \in WideRadii
Den == IF Wide THEN R * R ELSE 1
P2 == IF Wide THEN << 2 * Dot2(t[1], t[2]) * t[2][1] - R * R * t[1][1], 2 * Dot2(t[1], t[2]) * t[2][2] - R * R * t[1][2] >> ELSE t[3]    \* times Den
hd == Dot2(P1, M)
hc == Cross2(P1, M)
\* M is the mid point of an arc: it lies on the perpendicular bisector of the chord and on the circle
MidOK == /\ M[1] * M[1] + M[2] * M[2] = R * R
         /\ Wide \/ Dot2(M, P2) = hd              \* M . (P2 - P1) = 0 (for the wide pairs P2 is defined by the reflection, and
                                                  \* the products exceed TLC's integers)
         /\ hc # 0
\* turning P1 by twice the half angle gives P2:  P2 = 2 (P1.M) M / R^2 - P1  (exact)
ReflectOK == ~Wide => /\ R * R * (P2[1] + P1[1]) = 2 * hd * M[1]
                       /\ R * R * (P2[2] + P1[2]) = 2 * hd * M[2]
\* minor arc iff the half angle is below 90 degrees
Minor == hd > 0

W(p) == InFrame(Frames[fi], c, p[1], p[2], 0)
Record == [ R |-> R, flen |-> Frames[fi].len, centre |-> c,
            p1 |-> W(P1), m |-> W(M), p2lin |-> InFrame(Frames[fi], <<0, 0, 0>>, P2[1], P2[2], 0), den |-> Den, mopp |-> W(<<-M[1], -M[2]>>),
            axis |-> Frames[fi].w, hd |-> hd, hc |-> hc, minor |-> Minor,
            others |-> { [pl |-> y, w |-> W(y)] : y \in { z \in pts : z \notin {P1, P2} /\ (Wide => z[1] >= 0 /\ z[2] > 0 /\ z[1] % 5 = 0) } },
            plane |-> [ p1 |-> P1, m |-> M, p2 |-> P2 ] ]     \* (p2 = centre + p2lin / den; plane.p2 is times den)
Emit == PrintT(ToJson(Record))
=============================================================================
