---------------------------- MODULE HexTables ----------------------------
(* Emits the tables derived in Hex.tla as JSON so that the Python mirror   *)
(* (harness/hexref.py) can be compared with them (setup self-test).        *)
EXTENDS Hex, Json
VARIABLE x
Tables == [ axis_wires |-> [a \in 1..3 |-> [i \in 1..4 |-> AxisWire(a - 1, i)]],
            side_corners |-> [s \in SideNames |-> SideCorners(s)],
            rot_idx |-> RotIdx,
            syms |-> [n \in 1..48 |-> [k \in 1..8 |-> SymTab[n][k]]],
            lateral |-> [i \in 1..4 |-> LateralSide(i - 1)] ]
Init == x = 0
Next == UNCHANGED x
Spec == Init /\ [][Next]_x
Emit == PrintT(ToJson(Tables))
=============================================================================
