------------------------------- MODULE Quality -------------------------------
(***************************************************************************)
(* C14: the quality measure depends only on the cell's shape.              *)
(*                                                                         *)
(* Generator part: a catalogue of lattice hexahedra / quadrilaterals and   *)
(* the orientation-preserving renumberings (the 24 rotations of Hex.tla    *)
(* and the 4 rotations of a quad); a renumbered cell lists the same points *)
(* so that new corner k is the reference corner Perm[k].                   *)
(* Judge part: recorded quality values (integer codes round(1e7 ln(1+q)))  *)
(* of one orbit / one family of rigid motions / one family of scalings     *)
(* must be equal within Tol; a stretched cube must not get better with the *)
(* stretch factor and must be equally bad along the three directions.      *)
(***************************************************************************)
EXTENDS Hex, Json, IOUtils, SequencesExt

\* ---------------------------------------------------------------- generator
P(k, f) == LET c == XYZ(k) IN f[c[1] + 1][c[2] + 1][c[3] + 1]
Box(a, b, c) == [k \in 1..8 |-> LET q == XYZ(k - 1) IN << a * q[1], b * q[2], c * q[3] >>]
Sheared == [k \in 1..8 |-> LET q == XYZ(k - 1) IN << 3 * q[1] + 2 * q[3], 3 * q[2] + q[3], 3 * q[3] >>]
Tapered == [k \in 1..8 |-> LET q == XYZ(k - 1) IN
              IF q[3] = 0 THEN << 4 * q[1], 4 * q[2], 0 >> ELSE << 1 + 2 * q[1], 1 + 2 * q[2], 3 >>]
Skewed == [k \in 1..8 |-> LET q == XYZ(k - 1) IN
              << 5 * q[1] + (IF k = 3 THEN 1 ELSE 0) + q[2], 4 * q[2] + (IF k = 6 THEN 1 ELSE 0), 6 * q[3] + q[1] * q[2] >>]
Catalogue == [ cube |-> Box(2, 2, 2), box123 |-> Box(1, 2, 3), box511 |-> Box(5, 1, 1), box151 |-> Box(1, 5, 1),
               box115 |-> Box(1, 1, 5), sheared |-> Sheared, tapered |-> Tapered, skewed |-> Skewed ]
RotSeq == SetToSortSeq(RotIdx, LAMBDA a, b : a < b)
HexPerms == [n \in 1..24 |-> [k \in 1..8 |-> SymTab[RotSeq[n]][k]]]
QuadCat == [ square |-> << <<0, 0, 0>>, <<2, 0, 0>>, <<2, 2, 0>>, <<0, 2, 0>> >>,
             rect41 |-> << <<0, 0, 0>>, <<4, 0, 0>>, <<4, 1, 0>>, <<0, 1, 0>> >>,
             trapez |-> << <<0, 0, 0>>, <<5, 0, 0>>, <<4, 2, 0>>, <<1, 3, 0>> >>,
             kite   |-> << <<0, 0, 0>>, <<3, 1, 0>>, <<4, 4, 0>>, <<1, 3, 0>> >> ]
QuadPerms == [n \in 1..4 |-> [k \in 1..4 |-> ((k - 1 + n - 1) % 4)]]
\* every hex renumbering is a bijection that maps edges to edges and keeps the handedness
ASSUME \A n \in 1..24 : { HexPerms[n][k] : k \in 1..8 } = Corners
ASSUME Cardinality({ HexPerms[n] : n \in 1..24 }) = 24
\* neighbour of a parallelepiped across its "right" side: the copy translated by the edge 0 -> 1; the two share that side
ASSUME \A c \in {"cube", "box123", "box511", "sheared"} :
          LET cell == Catalogue[c] d == << cell[2][1] - cell[1][1], cell[2][2] - cell[1][2], cell[2][3] - cell[1][3] >> IN
          d[2] = 0 /\ d[3] = 0 /\ \A k \in {1, 4, 5, 8} : << cell[k][1] + d[1], cell[k][2], cell[k][3] >> \in { cell[j] : j \in {2, 3, 6, 7} }
Neighbour(cell) == LET dx == cell[2][1] - cell[1][1] IN [k \in 1..8 |-> << cell[k][1] + dx, cell[k][2], cell[k][3] >>]
\* the same neighbour with its far side pushed sideways: the pair is no straight continuation (the line between the two
\* centres does not pass through the centre of the common side)
BentNeighbour(cell) == LET n == Neighbour(cell) IN [k \in 1..8 |-> IF k \in {2, 3, 6, 7} THEN << n[k][1], n[k][2] + 1, n[k][3] + 1 >> ELSE n[k]]

VARIABLE x
GenInit == x = 0
GenSpec == GenInit /\ [][UNCHANGED x]_x
GenEmit == PrintT(ToJson([ hex |-> Catalogue, hexperms |-> HexPerms, quad |-> QuadCat, quadperms |-> QuadPerms,
                           neighbours |-> [ cube |-> Neighbour(Catalogue.cube), box123 |-> Neighbour(Catalogue.box123),
                                            box511 |-> Neighbour(Catalogue.box511), sheared |-> Neighbour(Catalogue.sheared),
                                            cube_bent |-> BentNeighbour(Catalogue.cube), box123_bent |-> BentNeighbour(Catalogue.box123),
                                            sheared_bent |-> BentNeighbour(Catalogue.sheared) ] ]))

\* ---------------------------------------------------------------- judge
Recs == JsonDeserialize(IOEnv.VERIF_TRACE_FILE).recs
Abs(v) == IF v < 0 THEN -v ELSE v
AllClose(codes, tol) == \A i, j \in 1..Len(codes) : Abs(codes[i] - codes[j]) <= tol
NonDecreasing(codes, tol) == \A i \in 1..(Len(codes) - 1) : codes[i + 1] >= codes[i] - tol
Verdict(r) ==
    CASE r.kind = "equal" -> AllClose(r.codes, r.tol)
      [] r.kind = "stretch" ->      \* r.rows[d][k]: direction d, k-th stretch factor
            /\ \A d \in 1..Len(r.rows) : NonDecreasing(r.rows[d], r.tol)
            /\ \A k \in 1..Len(r.rows[1]) : AllClose([d \in 1..Len(r.rows) |-> r.rows[d][k]], r.tol)
JInit == LET rs == Recs IN \E i \in 1..Len(rs) : x = rs[i]
JSpec == JInit /\ [][UNCHANGED x]_x
JEmit == PrintT(ToJson([id |-> x.id, ok |-> Verdict(x)]))
=============================================================================
