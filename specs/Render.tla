------------------------------- MODULE Render -------------------------------
(***************************************************************************)
(* The written blockMeshDict as a function of the user's model, stated     *)
(* declaratively, and a judge that decides recorded executions             *)
(* (abstract program + abstracted parsed file) clause by clause.           *)
(* Serves C05 (vertices), C06 (whole file), C07 (edges), C10 (addressing). *)
(*                                                                         *)
(* Program record (written by the harness BEFORE it drives the real API):  *)
(*   ops[i]  : pts (8 position ids), zone, patch (6 names, "" = none, in   *)
(*             SideSeq order), sproj (6 labels), pproj (8 label lists),    *)
(*             edges (c1,c2,kind,id,labels; data direction c1 -> c2),      *)
(*             deleted                                                     *)
(*   merged, dflt, pkind/psettings (effective patch modifications), geom   *)
(* File record (parsed + abstracted by the harness):                       *)
(*   vpos, vproj, blocks (v, zone), edges (kind, v1, v2, id, consistent,   *)
(*   labels),                                                              *)
(*   faces (quad, label), boundary (name, type, settings, quads), dflt,    *)
(*   merged, geom, vtk                                                     *)
(***************************************************************************)
EXTENDS Hex, Json, IOUtils

SideSeq == <<"bottom", "top", "left", "right", "front", "back">>
SideIdx(s) == CHOOSE i \in 1..6 : SideSeq[i] = s

Recs == JsonDeserialize(IOEnv.VERIF_TRACE_FILE).recs

VARIABLE rec

Range(f) == { f[x] : x \in DOMAIN f }

\* ---- the program -------------------------------------------------------
LiveIdx(r) == SelectSeq([i \in 1..Len(r.ops) |-> i], LAMBDA i : ~r.ops[i].deleted)
NLive(r) == Len(LiveIdx(r))
Op(r, i) == r.ops[LiveIdx(r)[i]]                 \* i-th live operation = i-th block
Slaves(r) == { p[2] : p \in Range(r.merged) }
PatchesAt(op, c) == { op.patch[SideIdx(s)] : s \in SidesAtCorner(c) } \ {""}
SlaveSet(r, op, c) == PatchesAt(op, c) \cap Slaves(r)

\* ---- the file ----------------------------------------------------------
F(r) == r.file
NV(r) == Len(F(r).vpos)
NBlk(r) == Len(F(r).blocks)
BV(r, i, c) == F(r).blocks[i].v[c + 1]
InRange(r, v) == v \in 0..(NV(r) - 1)
CornerRefs(r) == (1..NBlk(r)) \X Corners

AllIndices(r) ==
    UNION { Range(F(r).blocks[i].v) : i \in 1..NBlk(r) }
    \cup UNION { {e.v1, e.v2} : e \in Range(F(r).edges) }
    \cup UNION { Range(q.quad) : q \in Range(F(r).faces) }
    \cup UNION { UNION { Range(q) : q \in Range(p.quads) } : p \in Range(F(r).boundary) }

\* vertex set of side s of block i, and "quad q lists side s of block i"
SideVerts(r, i, s) == { BV(r, i, c) : c \in SideCorners(s) }
LocalCorner(r, i, v) == CHOOSE c \in Corners : BV(r, i, c) = v
QuadHasSideVerts(r, q, i, s) == Len(q) = 4 /\ Range(q) = SideVerts(r, i, s)
QuadIsSide(r, q, i, s) ==      \* lists the side as one of its 4-cycles
    /\ QuadHasSideVerts(r, q, i, s)
    /\ Cardinality(SideVerts(r, i, s)) = 4 =>
          IsCycle([j \in 1..4 |-> LocalCorner(r, i, q[j])])

\* ---- C05 ----------------------------------------------------------------
BlocksMatchOps(r) == NBlk(r) = NLive(r)
IndicesOK(r) == \A v \in AllIndices(r) : InRange(r, v)

C05_positions(r) ==      \* every corner refers to a vertex at its own position
    \A x \in CornerRefs(r) : F(r).vpos[BV(r, x[1], x[2]) + 1] = Op(r, x[1]).pts[x[2] + 1]
C05_shared(r) ==         \* same position and same slave-patch set => one vertex
    \A x, y \in CornerRefs(r) :
        (/\ Op(r, x[1]).pts[x[2] + 1] = Op(r, y[1]).pts[y[2] + 1]
         /\ SlaveSet(r, Op(r, x[1]), x[2]) = SlaveSet(r, Op(r, y[1]), y[2]))
        => BV(r, x[1], x[2]) = BV(r, y[1], y[2])
C05_masterslave(r) ==    \* a corner on a slave patch never shares its vertex with a corner on the paired master
    \A x, y \in CornerRefs(r) : \A p \in Range(r.merged) :
        LET px == PatchesAt(Op(r, x[1]), x[2])
            py == PatchesAt(Op(r, y[1]), y[2])
        IN (p[2] \in px /\ p[1] \notin px /\ p[1] \in py /\ p[2] \notin py) => BV(r, x[1], x[2]) # BV(r, y[1], y[2])
C05_dense(r) ==          \* numbers are dense: every listed vertex is used, every used index listed
    { BV(r, x[1], x[2]) : x \in CornerRefs(r) } = 0..(NV(r) - 1)

\* ---- C06 ----------------------------------------------------------------
C06_blocks(r) ==         \* hex entries: the live operations in order, own corner order, cell zone
    /\ BlocksMatchOps(r)
    /\ \A i \in 1..NBlk(r) : F(r).blocks[i].zone = Op(r, i).zone
C06_vertexproj(r) ==     \* projected corners
    \A x \in CornerRefs(r) :
        LET want == Op(r, x[1]).pproj[x[2] + 1] IN
        want # <<>> => Range(want) \subseteq Range(F(r).vproj[BV(r, x[1], x[2]) + 1])
C06_vertexproj_exact(r) ==     \* ... and to nothing else: a vertex carries exactly the labels declared at the corners that use it
    \A v \in 0..(NV(r) - 1) :
        Range(F(r).vproj[v + 1]) = UNION { Range(Op(r, x[1]).pproj[x[2] + 1]) : x \in { y \in CornerRefs(r) : BV(r, y[1], y[2]) = v } }
ExpPatchNames(r) == UNION { Range(Op(r, i).patch) : i \in 1..NLive(r) } \ {""}
ExpPatchSides(r, n) == { <<i, s>> \in (1..NLive(r)) \X SideNames : Op(r, i).patch[SideIdx(s)] = n }
FilePatch(r, n) == CHOOSE p \in Range(F(r).boundary) : p.name = n
C06_patchnames(r) ==
    { p.name : p \in { q \in Range(F(r).boundary) : Len(q.quads) > 0 } } = ExpPatchNames(r)
C06_patchnames_unique(r) ==
    \A a, b \in 1..Len(F(r).boundary) : F(r).boundary[a].name = F(r).boundary[b].name => a = b
C06_patchquads(r) ==     \* every assigned side appears as a quad of that patch; no other quads
    \A n \in ExpPatchNames(r) :
        (\E p \in Range(F(r).boundary) : p.name = n) =>
        LET p == FilePatch(r, n) IN
        \* a geometric side assigned by two operations is listed once, as a 4-cycle of (at least) one of them
        /\ \A x \in ExpPatchSides(r, n) : \E j \in 1..Len(p.quads) : QuadHasSideVerts(r, p.quads[j], x[1], x[2])
        /\ \A j \in 1..Len(p.quads) : \E x \in ExpPatchSides(r, n) : QuadIsSide(r, p.quads[j], x[1], x[2])
        /\ \A j, k \in 1..Len(p.quads) : Range(p.quads[j]) = Range(p.quads[k]) => j = k
C06_patchtypes(r) ==
    \A n \in ExpPatchNames(r) :
        (\E p \in Range(F(r).boundary) : p.name = n) =>
        LET p == FilePatch(r, n) IN
        /\ p.type = (IF \E m \in Range(r.pkind) : m[1] = n THEN (CHOOSE m \in Range(r.pkind) : m[1] = n)[2] ELSE "patch")
        /\ p.settings = (IF \E m \in Range(r.psettings) : m[1] = n THEN (CHOOSE m \in Range(r.psettings) : m[1] = n)[2] ELSE <<>>)
ExpFaces(r) == { <<i, s>> \in (1..NLive(r)) \X SideNames : Op(r, i).sproj[SideIdx(s)] # "" }
C06_faces(r) ==
    /\ \A x \in ExpFaces(r) : \E f \in Range(F(r).faces) :
          QuadHasSideVerts(r, f.quad, x[1], x[2]) /\ (r.unique_face_labels => f.label = Op(r, x[1]).sproj[SideIdx(x[2])])
    /\ \A f \in Range(F(r).faces) : \E x \in ExpFaces(r) :
          QuadIsSide(r, f.quad, x[1], x[2]) /\ (r.unique_face_labels => f.label = Op(r, x[1]).sproj[SideIdx(x[2])])
    /\ \A a, b \in 1..Len(F(r).faces) : Range(F(r).faces[a].quad) = Range(F(r).faces[b].quad) => a = b
C06_mesh_level(r) == /\ F(r).dflt = r.dflt /\ F(r).merged = r.merged
                     /\ Range(F(r).geom) = Range(r.geom) /\ Len(F(r).geom) = Cardinality(Range(r.geom))
                     /\ Range(F(r).settings) = Range(r.settings)
C06_geometry_defined(r) ==     \* whatever is projected to is defined (asked only of built-in shapes)
    r.builtin =>
        LET used == UNION { Range(F(r).vproj[v]) : v \in 1..NV(r) }
                    \cup { f.label : f \in Range(F(r).faces) }
                    \cup UNION { Range(e.labels) : e \in Range(F(r).edges) }
        IN used \subseteq { g[1] : g \in Range(F(r).geom) }
C06_vtk(r) == r.file.vtk_checked => (r.file.vtk_points_match /\ r.file.vtk_cells = [i \in 1..NBlk(r) |-> F(r).blocks[i].v])

\* ---- C07 ----------------------------------------------------------------
\* user edges of live operations that must be written: not a line, end points distinct, not a collinear arc
\* a user edge is given between two POSITIONS pa -> pb (data direction); the corners are found by position,
\* so edges follow their points through face manipulations (C10)
UserEdges(r) == { <<i, j>> \in (1..NLive(r)) \X (1..24) : j <= Len(Op(r, i).edges_tlc) }
UE(r, x) == Op(r, x[1]).edges_tlc[x[2]]
Writable(e) == e.kind # "line" /\ ~e.degenerate
CornerOfPos(op, p) == CHOOSE c \in Corners : op.pts[c + 1] = p
EndV(r, x) == << BV(r, x[1], CornerOfPos(Op(r, x[1]), UE(r, x).pa)), BV(r, x[1], CornerOfPos(Op(r, x[1]), UE(r, x).pb)) >>
IsBlockEdge(r, a, b) == \E i \in 1..NBlk(r) : \E c, d \in Corners : IsEdge(c, d) /\ BV(r, i, c) = a /\ BV(r, i, d) = b
Matches(r, fe, x) ==     \* file entry fe realises user edge x (possibly listed in the opposite vertex order)
    LET e == UE(r, x) ends == EndV(r, x) IN
    /\ {fe.v1, fe.v2} = {ends[1], ends[2]}
    /\ fe.kind = e.outkind
    /\ fe.id = e.id
    /\ fe.labels = e.labels
    /\ e.directed => fe.consistent      \* the drawn curve is the one the user described (harness abstraction)
C07_on_block_edges(r) == \A fe \in Range(F(r).edges) : fe.v1 # fe.v2 /\ IsBlockEdge(r, fe.v1, fe.v2)
C07_unique(r) == \A a, b \in 1..Len(F(r).edges) :
                    {F(r).edges[a].v1, F(r).edges[a].v2} = {F(r).edges[b].v1, F(r).edges[b].v2} => a = b
C07_present(r) ==        \* every writable user edge is represented by the entry on its vertex pair
    \A x \in UserEdges(r) : Writable(UE(r, x)) =>
        \E fe \in Range(F(r).edges) :
            /\ {fe.v1, fe.v2} = {EndV(r, x)[1], EndV(r, x)[2]}
            /\ \E y \in UserEdges(r) : Writable(UE(r, y)) /\ Matches(r, fe, y)   \* the same geometric edge may be defined twice
C07_no_extra(r) ==       \* every entry realises some writable user edge
    \A fe \in Range(F(r).edges) : \E x \in UserEdges(r) : Writable(UE(r, x)) /\ Matches(r, fe, x)

\* ---- C10: face manipulations and addressing ------------------------------
Rot(q, k) == [i \in 1..4 |-> q[((i - 1 + k) % 4) + 1]]
CycRots(q) == { Rot(q, k) : k \in 0..3 }
Rev(q) == [i \in 1..4 |-> q[5 - i]]
\* what a manipulation may do to the point order (the edges are checked separately):
\*   invert   - the cyclic order is reversed (normal flips); which point comes first is not prescribed
\*   shift n  - the cyclic order is kept; a multiple of 4 changes nothing
\*   reorient - the cyclic order is kept and the chosen (nearest) point becomes the first
StepOK(before, st) ==
    CASE st.op = "invert" -> st.pts \in CycRots(Rev(before))
      [] st.op = "shift" -> st.pts \in CycRots(before) /\ (st.arg % 4 = 0 => st.pts = before)
      [] st.op = "reorient" -> st.pts \in CycRots(before) /\ st.pts[1] = before[st.arg + 1]
FaceInit(op, fname) == IF fname = "bottom" THEN [i \in 1..4 |-> op.pts0[i]] ELSE [i \in 1..4 |-> op.pts0[i + 4]]
FaceSteps(op, fname) == IF fname = "bottom" THEN op.fsteps.bottom ELSE op.fsteps.top
FaceBefore(op, fname, j) == IF j = 1 THEN FaceInit(op, fname) ELSE FaceSteps(op, fname)[j - 1].pts
FaceFinal(op, fname) == LET st == FaceSteps(op, fname) IN IF Len(st) = 0 THEN FaceInit(op, fname) ELSE st[Len(st)].pts
C10_face_steps(r) ==
    \A o \in 1..Len(r.ops) : \A fname \in {"bottom", "top"} :
        LET op == r.ops[o] IN
        /\ \A j \in 1..Len(FaceSteps(op, fname)) : StepOK(FaceBefore(op, fname, j), FaceSteps(op, fname)[j])
        /\ [i \in 1..4 |-> op.pts[IF fname = "bottom" THEN i ELSE i + 4]] = FaceFinal(op, fname)
C06_ops_as_given(r) ==
    \A o \in 1..Len(r.ops) : (Len(r.ops[o].fsteps.bottom) = 0 /\ Len(r.ops[o].fsteps.top) = 0) => r.ops[o].pts = r.ops[o].pts0
\* every edge of a face still joins its original two points after each manipulation
FaceEdgesOf(op, fname) == { e \in Range(op.edges) : e.where[1] = fname }
C10_face_edges(r) ==
    \A o \in 1..Len(r.ops) : \A fname \in {"bottom", "top"} :
        LET op == r.ops[o] IN
        \A j \in 1..Len(FaceSteps(op, fname)) : \A i \in 1..4 :
            LET st == FaceSteps(op, fname)[j]
                ends == {st.pts[i], st.pts[(i % 4) + 1]}
                here == { e \in FaceEdgesOf(op, fname) : {e.pa, e.pb} = ends }
            IN IF st.eds[i] = 0 THEN here = {} ELSE \E e \in here : e.id = st.eds[i]
\* faces obtained by side name have the corners of that side
C10_get_face(r) ==
    \A o \in 1..Len(r.ops) : \A s \in 1..6 :
        LET op == r.ops[o] q == op.get_face[s] IN
        /\ Len(q) = 4
        /\ \A j \in 1..4 : q[j] \in Range(op.pts)
        /\ { CornerOfPos(op, q[j]) : j \in 1..4 } = SideCorners(SideSeq[s])
        /\ IsCycle([j \in 1..4 |-> CornerOfPos(op, q[j])])

Clauses == << "IndicesOK", "C06_ops_as_given", "C10_face_steps", "C10_face_edges", "C10_get_face", "C05_positions", "C05_shared", "C05_masterslave", "C05_dense",
              "C06_blocks", "C06_vertexproj", "C06_vertexproj_exact", "C06_patchnames", "C06_patchnames_unique", "C06_patchquads", "C06_patchtypes",
              "C06_faces", "C06_mesh_level", "C06_geometry_defined", "C06_vtk",
              "C07_on_block_edges", "C07_unique", "C07_present", "C07_no_extra" >>
Holds(r, c) ==
    CASE c = "IndicesOK" -> IndicesOK(r)
      [] c = "C06_ops_as_given" -> C06_ops_as_given(r) [] c = "C10_face_steps" -> C10_face_steps(r)
      [] c = "C10_face_edges" -> C10_face_edges(r) [] c = "C10_get_face" -> C10_get_face(r)
      [] c = "C05_positions" -> C05_positions(r) [] c = "C05_shared" -> C05_shared(r)
      [] c = "C05_masterslave" -> C05_masterslave(r) [] c = "C05_dense" -> C05_dense(r)
      [] c = "C06_blocks" -> C06_blocks(r) [] c = "C06_vertexproj" -> C06_vertexproj(r)
      [] c = "C06_vertexproj_exact" -> C06_vertexproj_exact(r)
      [] c = "C06_patchnames" -> C06_patchnames(r) [] c = "C06_patchnames_unique" -> C06_patchnames_unique(r)
      [] c = "C06_patchquads" -> C06_patchquads(r) [] c = "C06_patchtypes" -> C06_patchtypes(r)
      [] c = "C06_faces" -> C06_faces(r) [] c = "C06_mesh_level" -> C06_mesh_level(r)
      [] c = "C06_geometry_defined" -> C06_geometry_defined(r) [] c = "C06_vtk" -> C06_vtk(r)
      [] c = "C07_on_block_edges" -> C07_on_block_edges(r) [] c = "C07_unique" -> C07_unique(r)
      [] c = "C07_present" -> C07_present(r) [] c = "C07_no_extra" -> C07_no_extra(r)

\* clauses are evaluated in order; those after a failed structural clause are skipped (reported as such)
Judge(r) ==
    IF ~(BlocksMatchOps(r) /\ IndicesOK(r))
    THEN { c \in {"C06_blocks", "IndicesOK"} : ~Holds(r, c) }
    ELSE { Clauses[k] : k \in { j \in 1..Len(Clauses) : ~Holds(r, Clauses[j]) } }

Init == LET rs == Recs IN \E i \in 1..Len(rs) : rec = rs[i]
Next == UNCHANGED rec
Spec == Init /\ [][Next]_rec
Verdict == PrintT(ToJson([id |-> rec.id, fails |-> Judge(rec)]))
=============================================================================
