---------------------------- MODULE OptimizerJudge ----------------------------
(* Acceptor for recorded executions of OptimizerBase.optimize (C13): every      *)
(* optimize_clamp step must be one of the Finish outcomes of Optimizer.tla      *)
(* (Skip: state restored; Accept: the last probed state, strictly better;       *)
(* Rollback: state restored), no other point may move, followers stay linked,   *)
(* clamped points stay on their manifold and inside their bounds, and the       *)
(* mesh/sketch equals the optimizer's points after the run.                     *)
EXTENDS Naturals, Sequences, FiniteSets, TLC, Json, IOUtils
\* ---- acceptor for recorded executions --------------------------------------------------
\* one record = one optimize() run: steps (one per optimize_clamp call) + the final observations
Recs == JsonDeserialize(IOEnv.VERIF_TRACE_FILE).recs
VARIABLE rec
StepOK(s) ==
    /\ IF s.degenerate THEN s.restored /\ s.q_after_eq_before                       \* Skip
       ELSE IF s.improved THEN s.q_after_eq_last /\ ~s.q_after_worse                \* Accept
            ELSE s.restored /\ s.q_after_eq_before                                  \* Rollback
    /\ s.others_still /\ s.followers_linked /\ s.on_manifold /\ s.in_bounds
RunVerdict(r) ==
    { c \in {"step-rule", "never-worse", "unclamped-moved", "backport", "followers", "constraints"} :
        CASE c = "step-rule" -> \E i \in 1..Len(r.steps) :
                                   LET s == r.steps[i] IN
                                   ~ (IF s.degenerate THEN s.restored /\ s.q_after_eq_before
                                      ELSE IF s.improved THEN s.q_after_eq_last ELSE s.restored /\ s.q_after_eq_before)
          [] c = "never-worse" -> r.final_worse \/ \E i \in 1..Len(r.steps) : r.steps[i].q_after_worse
          [] c = "unclamped-moved" -> ~r.unclamped_still \/ \E i \in 1..Len(r.steps) : ~r.steps[i].others_still
          [] c = "backport" -> ~r.backport_equal
          [] c = "followers" -> ~r.followers_linked \/ \E i \in 1..Len(r.steps) : ~r.steps[i].followers_linked
          [] c = "constraints" -> ~r.on_manifold \/ ~r.in_bounds \/ \E i \in 1..Len(r.steps) : ~(r.steps[i].on_manifold /\ r.steps[i].in_bounds) }
JInit == LET rs == Recs IN \E i \in 1..Len(rs) : rec = rs[i]
JSpec == JInit /\ [][UNCHANGED rec]_rec
JEmit == PrintT(ToJson([id |-> rec.id, fails |-> RunVerdict(rec)]))
=============================================================================
