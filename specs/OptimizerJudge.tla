---------------------------- MODULE OptimizerJudge ----------------------------
(* Acceptor for recorded executions of OptimizerBase.optimize (C13): every      *)
(* optimize_clamp step must be one of the Finish outcomes of Optimizer.tla      *)
(* (Skip: state restored; Accept: the last probed state, strictly better;       *)
(* Rollback: state restored), no other point may move, followers stay linked,   *)
(* clamped points stay on their manifold and inside their bounds, and the       *)
(* mesh/sketch equals the optimizer's points after the run.  The iteration      *)
(* driver (Optimizer.tla Converged): r.iters lists <<quality at begin, at end>>  *)
(* of every iteration in units of 1e-9 of the quality before the first one       *)
(* (so tolerance t is r.tol = t * 1e9); the run has at most r.max_iter           *)
(* iterations, went on exactly while Converged was false and stopped when true.  *)
EXTENDS Naturals, Sequences, FiniteSets, TLC, Json, IOUtils
\* ---- acceptor for recorded executions --------------------------------------------------
\* one record = one optimize() run: steps (one per optimize_clamp call) + the final observations
Recs == JsonDeserialize(IOEnv.VERIF_TRACE_FILE).recs
VARIABLE rec
StepOK(s) ==
    /\ IF s.degenerate THEN s.restored /\ s.q_after_eq_before                       \* Skip
       ELSE IF s.improved THEN s.q_after_eq_last /\ ~s.q_after_worse                \* Accept
            ELSE s.restored /\ s.q_after_eq_before                                  \* Rollback
    /\ s.others_still /\ s.followers_linked /\ s.on_manifold /\ s.in_bounds
ConvergedAt(r, n) ==      \* after n iterations
    \/ n >= r.max_iter
    \/ n >= 2 /\ r.iters[n][1] - r.iters[n][2] < r.tol
DriverOK(r) == /\ Len(r.iters) >= 1 /\ Len(r.iters) <= r.max_iter
               /\ ConvergedAt(r, Len(r.iters))
               /\ \A n \in 1..(Len(r.iters) - 1) : ~ConvergedAt(r, n)
               /\ \A n \in 1..(Len(r.iters) - 1) : r.iters[n + 1][1] = r.iters[n][2]     \* iterations follow one another
RunVerdict(r) ==
    { c \in {"step-rule", "never-worse", "unclamped-moved", "backport", "followers", "constraints", "driver"} :
        CASE c = "step-rule" -> \E i \in 1..Len(r.steps) :
                                   LET s == r.steps[i] IN
                                   ~ (IF s.degenerate THEN s.restored /\ s.q_after_eq_before
                                      ELSE IF s.improved THEN s.q_after_eq_last ELSE s.restored /\ s.q_after_eq_before)
          [] c = "never-worse" -> r.final_worse \/ \E i \in 1..Len(r.steps) : r.steps[i].q_after_worse
          [] c = "unclamped-moved" -> ~r.unclamped_still \/ \E i \in 1..Len(r.steps) : ~r.steps[i].others_still
          [] c = "backport" -> ~r.backport_equal
          [] c = "followers" -> ~r.followers_linked \/ \E i \in 1..Len(r.steps) : ~r.steps[i].followers_linked
          [] c = "driver" -> ~DriverOK(r)
          [] c = "constraints" -> ~r.on_manifold \/ ~r.in_bounds \/ \E i \in 1..Len(r.steps) : ~(r.steps[i].on_manifold /\ r.steps[i].in_bounds) }
JInit == LET rs == Recs IN \E i \in 1..Len(rs) : rec = rs[i]
JSpec == JInit /\ [][UNCHANGED rec]_rec
JEmit == PrintT(ToJson([id |-> rec.id, fails |-> RunVerdict(rec)]))
=============================================================================
