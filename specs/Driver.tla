-------------------------------- MODULE Driver --------------------------------
(***************************************************************************)
(* C13: IterationDriver - the outer loop of OptimizerBase.optimize - as a   *)
(* state machine of its own (the same Converged rule as Optimizer.tla,     *)
(* which embeds it in the clamp-by-clamp protocol).  A behaviour is the    *)
(* sequence of <<quality at the beginning, quality at the end>> of the     *)
(* iterations run so far; qualities are positive integers, an iteration    *)
(* never ends worse than it began, the next one begins where the last one  *)
(* ended.  TLC checks the loop bounds and emits every reachable history    *)
(* with the decision the driver has to take after it; the harness replays  *)
(* each history through the real IterationDriver.                          *)
(***************************************************************************)
EXTENDS Naturals, Sequences, TLC, Json

CONSTANTS QMax, MaxIter, TolDen      \* tolerance = 1 / TolDen

VARIABLES hist, done
vars == <<hist, done>>

Q0 == hist[1][1]
Converged(h) ==
    LET n == Len(h) IN
    \/ n >= MaxIter
    \/ n >= 2 /\ TolDen * (h[n][1] - h[n][2]) < h[1][1]

Init == hist = <<>> /\ done = FALSE
Iterate == /\ ~done
           /\ \E qb \in 1..QMax, qe \in 1..QMax :
                 /\ qe <= qb
                 /\ IF hist = <<>> THEN TRUE ELSE qb = hist[Len(hist)][2]
                 /\ hist' = Append(hist, <<qb, qe>>)
                 /\ done' = Converged(hist')
Next == Iterate
Spec == Init /\ [][Next]_vars /\ WF_vars(Next)

\* the loop runs at least once, at most MaxIter times, at least twice unless the limit is one, and it ends
Bounded == Len(hist) <= MaxIter
AtLeastTwo == done => (Len(hist) >= 2 \/ Len(hist) = MaxIter)
Ends == <>done
\* stopping early means the last iteration gained less than the tolerance allows - measured against the FIRST quality
EarlyStop == IF done /\ Len(hist) < MaxIter THEN TolDen * (hist[Len(hist)][1] - hist[Len(hist)][2]) < hist[1][1] ELSE TRUE

Emit == hist # <<>> => PrintT(ToJson([hist |-> hist, converged |-> done, max_iter |-> MaxIter, tolden |-> TolDen]))
=============================================================================
