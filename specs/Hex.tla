------------------------------- MODULE Hex -------------------------------
(***************************************************************************)
(* The blockMesh hexahedron convention, DERIVED from corner coordinates.   *)
(*                                                                         *)
(* Nothing in this module is copied from classy_blocks' constants.py       *)
(* (FACE_MAP, SIDES_MAP, AXIS_PAIRS, edge_map, HexCell.side_indexes): the  *)
(* library's tables are observed through behaviour and compared with what  *)
(* is derived here from the OpenFOAM user-guide sketch                     *)
(*   0(0,0,0) 1(1,0,0) 2(1,1,0) 3(0,1,0) 4(0,0,1) 5(1,0,1) 6(1,1,1) 7(0,1,1)*)
(***************************************************************************)
EXTENDS Naturals, Integers, Sequences, FiniteSets, TLC

Corners == 0..7

\* coordinates are 1-indexed tuples <<x,y,z>>
XYZ(k) == CASE k = 0 -> <<0,0,0>> [] k = 1 -> <<1,0,0>> [] k = 2 -> <<1,1,0>> [] k = 3 -> <<0,1,0>>
            [] k = 4 -> <<0,0,1>> [] k = 5 -> <<1,0,1>> [] k = 6 -> <<1,1,1>> [] k = 7 -> <<0,1,1>>

CornerAtSlow(p) == CHOOSE k \in Corners : XYZ(k) = p
\* constant-level tables (TLC evaluates them once); all are computed from XYZ, none is written out by hand
Bits3 == [1..3 -> {0, 1}]
CornerAtTab == [p \in Bits3 |-> CornerAtSlow(p)]
CornerAt(p) == CornerAtTab[p]

\* axes are 0,1,2 as in blockMesh (x1,x2,x3); coordinate index is axis+1
Axes == 0..2

DiffCoords(a, b) == {i \in 1..3 : XYZ(a)[i] # XYZ(b)[i]}

\* an edge is a pair of corners differing in exactly one coordinate
IsEdge(a, b) == Cardinality(DiffCoords(a, b)) = 1
EdgeAxis(a, b) == (CHOOSE i \in DiffCoords(a, b) : TRUE) - 1
EdgeSet == {e \in SUBSET Corners : Cardinality(e) = 2 /\ \E a, b \in e : a # b /\ IsEdge(a, b)}

\* The four edges ("wires") of an axis in blockMesh's edgeGrading order:
\* the two remaining coordinates (u < v by axis index) run through
\* (0,0) (1,0) (1,1) (0,1); each wire is directed from coordinate 0 to 1.
OtherAxes(a) == IF a = 0 THEN <<1, 2>> ELSE IF a = 1 THEN <<0, 2>> ELSE <<0, 1>>
UVSeq == << <<0,0>>, <<1,0>>, <<1,1>>, <<0,1>> >>
PointWith(a, t, uv) ==
    LET o == OtherAxes(a) IN
    [i \in 1..3 |-> IF i = a + 1 THEN t ELSE IF i = o[1] + 1 THEN uv[1] ELSE uv[2]]
AxisWire(a, i) == << CornerAt(PointWith(a, 0, UVSeq[i])), CornerAt(PointWith(a, 1, UVSeq[i])) >>
AxisWireTab == [a \in Axes |-> [i \in 1..4 |-> AxisWire(a, i)]]
AxisWires(a) == AxisWireTab[a]
\* all 12 directed wires in edgeGrading order
AllWires == [n \in 1..12 |-> AxisWire((n - 1) \div 4, ((n - 1) % 4) + 1)]

\* Sides: corner sets with one coordinate fixed
SideNames == {"bottom", "top", "left", "right", "front", "back"}
SideCoord(s) == CASE s = "left" -> <<1, 0>> [] s = "right" -> <<1, 1>>
                  [] s = "front" -> <<2, 0>> [] s = "back" -> <<2, 1>>
                  [] s = "bottom" -> <<3, 0>> [] s = "top" -> <<3, 1>>
SideCorners(s) == {k \in Corners : XYZ(k)[SideCoord(s)[1]] = SideCoord(s)[2]}
\* a quad (sequence of 4 corners) is a valid listing of a side iff it is a 4-cycle of that side
IsCycle(q) == /\ Len(q) = 4
              /\ \A i \in 1..4 : IsEdge(q[i], q[(i % 4) + 1])
IsQuadOfSide(q, s) == IsCycle(q) /\ {q[i] : i \in 1..4} = SideCorners(s)
SideOfCornerSet(cs) == CHOOSE s \in SideNames : SideCorners(s) = cs
IsSideSet(cs) == \E s \in SideNames : SideCorners(s) = cs
\* sides touching a corner (three of them)
SidesAtCorner(k) == {s \in SideNames : k \in SideCorners(s)}
\* the lateral sides in the order of the bottom-face edge they stand on: i -> side containing corners i, i+1 (mod 4)
LateralSide(i) == CHOOSE s \in SideNames \ {"bottom", "top"} : {i, (i + 1) % 4} \subseteq SideCorners(s)

\* Symmetries as signed coordinate permutations: 6 permutations x 8 flips = 48
Perms3 == { <<1,2,3>>, <<1,3,2>>, <<2,1,3>>, <<2,3,1>>, <<3,1,2>>, <<3,2,1>> }
Flips == [1..3 -> {0, 1}]
Syms == [p : Perms3, f : Flips]
Xor(a, b) == IF a = b THEN 0 ELSE 1
\* where local corner k of a re-numbered block sits in the reference cell
SymApply(s, k) == CornerAt([i \in 1..3 |-> Xor(XYZ(k)[s.p[i]], s.f[i])])
PermSign(p) == IF p \in { <<1,2,3>>, <<2,3,1>>, <<3,1,2>> } THEN 1 ELSE -1
FlipSign(f) == IF (f[1] + f[2] + f[3]) % 2 = 0 THEN 1 ELSE -1
IsRotation(s) == PermSign(s.p) * FlipSign(s.f) = 1
Rotations == {s \in Syms : IsRotation(s)}
\* a fixed enumeration (sequence) of symmetries so configs can name them by index
SymSeq == LET ps == << <<1,2,3>>, <<1,3,2>>, <<2,1,3>>, <<2,3,1>>, <<3,1,2>>, <<3,2,1>> >>
          IN [n \in 1..48 |->
                LET pi == ((n - 1) \div 8) + 1
                    fb == (n - 1) % 8
                IN [p |-> ps[pi], f |-> [i \in 1..3 |-> (fb \div (IF i = 1 THEN 1 ELSE IF i = 2 THEN 2 ELSE 4)) % 2]]]
RotIdx == {n \in 1..48 : IsRotation(SymSeq[n])}
\* SymTab[n][k+1]: image of corner k under symmetry number n
SymTab == [n \in 1..48 |-> [k \in 1..8 |-> SymApply(SymSeq[n], k - 1)]]
XYZTab == [k \in 1..8 |-> XYZ(k - 1)]

ASSUME Cardinality(EdgeSet) = 12
ASSUME Cardinality(Syms) = 48
ASSUME Cardinality(Rotations) = 24
ASSUME Cardinality(RotIdx) = 24
ASSUME \A s \in Syms : {SymApply(s, k) : k \in Corners} = Corners
ASSUME \A s \in Syms : \A a, b \in Corners : IsEdge(a, b) <=> IsEdge(SymApply(s, a), SymApply(s, b))
ASSUME \A s \in SideNames : Cardinality(SideCorners(s)) = 4
ASSUME \A k \in Corners : Cardinality(SidesAtCorner(k)) = 3
ASSUME {{AllWires[n][1], AllWires[n][2]} : n \in 1..12} = EdgeSet
=============================================================================
