------------------------------- MODULE Blocking -------------------------------
(***************************************************************************)
(* C11: predefined shapes give right-handed, conformal, fully choppable    *)
(* blockings.  Trace acceptor over recorded assemblies:                    *)
(*   blocks   : 8 vertex indexes per block (Block.indexes after assemble)  *)
(*   jac      : per block and corner, is the corner Jacobian positive      *)
(*              (evaluated by the harness from the vertex positions in the *)
(*              blockMesh convention of Hex.tla)                           *)
(*   nverts / exp_nverts : vertex count and the class formula (0 = none)   *)
(*   arcs_ok  : outer arcs lie on the intended circle (harness predicate)  *)
(*   write_ok : Mesh.write() succeeded after the documented chop calls     *)
(*   groups, iface : block index sets of chained shapes and the number of  *)
(*              vertices each listed pair must share                       *)
(*   opposite_ok : chained shapes lie on opposite sides of their planar    *)
(*              interface (harness predicate over the vertex positions)    *)
(* The topological clauses are evaluated here from the recorded indexes.   *)
(***************************************************************************)
EXTENDS Hex, Json, IOUtils

Recs == JsonDeserialize(IOEnv.VERIF_TRACE_FILE).recs
VARIABLES rec,     \* the record being judged
          sob,     \* [block -> set of its six sides as vertex sets]   (computed once, in Init: TLC re-evaluates LET
          vs,      \* [block -> set of its vertices]                    definitions and operator arguments at every use)
          adj      \* [block -> blocks it shares a side with]
Range(f) == { f[x] : x \in DOMAIN f }

V(r, b) == Range(r.blocks[b])
SidesOfBlock(r, b) == { { r.blocks[b][c + 1] : c \in SideCorners(s) } : s \in SideNames }
Blocks(r) == 1..Len(r.blocks)
Proper(r, b) == Cardinality(V(r, b)) = 8           \* collapsed (wedge-like) blocks are not judged topologically

\* no quad is a side of more than two blocks
SidesShared(r) == \A b \in Blocks(r) : \A q \in sob[b] : Cardinality({ c \in Blocks(r) : q \in sob[c] }) <= 2
\* two blocks that have three or more vertices in common have a whole side in common
WholeSides(r) == \A b, c \in Blocks(r) :
                    (b < c /\ Cardinality(vs[b]) = 8 /\ Cardinality(vs[c]) = 8 /\ Cardinality(vs[b] \cap vs[c]) >= 3)
                    => (vs[b] \cap vs[c]) \in (sob[b] \cap sob[c])
\* the blocks of one shape/assembly are connected through common sides
RECURSIVE Reach(_, _)
Reach(S, k) == IF k = 0 THEN S ELSE LET S2 == S \cup UNION { adj[x] : x \in S } IN IF S2 = S THEN S ELSE Reach(S2, k - 1)
Connected(r) == Len(r.blocks) = 0 \/ Reach({1}, Len(r.blocks)) = Blocks(r)
RightHanded(r) == \A b \in Blocks(r) : \A c \in 1..8 : r.jac[b][c]
VertexCount(r) == r.exp_nverts = 0 \/ r.nverts = r.exp_nverts
GroupVerts(r, g) == UNION { vs[b] : b \in Range(r.groups[g]) }
Interfaces(r) == \A x \in Range(r.iface) : Cardinality(GroupVerts(r, x[1]) \cap GroupVerts(r, x[2])) = x[3]

Verdict(r) == { c \in {"sides-shared", "whole-sides", "connected", "right-handed", "vertex-count", "arcs-on-circle", "write", "interfaces",
                         "interface-sides"} :
                  ~ (CASE c = "sides-shared" -> SidesShared(r) [] c = "whole-sides" -> WholeSides(r) [] c = "connected" -> Connected(r)
                       [] c = "right-handed" -> RightHanded(r) [] c = "vertex-count" -> VertexCount(r) [] c = "arcs-on-circle" -> r.arcs_ok
                       [] c = "write" -> r.write_ok [] c = "interfaces" -> Interfaces(r)
                       [] c = "interface-sides" -> r.opposite_ok) }
Init == LET rs == Recs IN \E i \in 1..Len(rs) :
          /\ rec = rs[i]
          /\ sob = [b \in Blocks(rs[i]) |-> SidesOfBlock(rs[i], b)]
          /\ vs = [b \in Blocks(rs[i]) |-> V(rs[i], b)]
          /\ adj = [b \in Blocks(rs[i]) |-> { c \in Blocks(rs[i]) : c # b /\ SidesOfBlock(rs[i], b) \cap SidesOfBlock(rs[i], c) # {} }]
Spec == Init /\ [][UNCHANGED <<rec, sob, vs, adj>>]_<<rec, sob, vs, adj>>
Emit == PrintT(ToJson([id |-> rec.id, fails |-> Verdict(rec)]))
=============================================================================
