-------------------------------- MODULE Curve --------------------------------
(***************************************************************************)
(* C16: exact piecewise-linear curves.  A polyline is a start point plus a *)
(* sequence of lattice steps of INTEGER length (3-4-5 type), so cumulative *)
(* arc lengths are integers and chord-length parameters are rationals.     *)
(* For arc length s (a rational <<n, d>>) the point on the curve and the   *)
(* length between two arc lengths are exact; TLC emits them as rationals.  *)
(***************************************************************************)
EXTENDS Lattice, Json

CONSTANTS MaxSteps, SampleDen     \* polylines of 2..MaxSteps steps; samples at multiples of L / SampleDen and at the knots

Steps == << [v |-> <<3, 4, 0>>, len |-> 5], [v |-> <<2, 0, 0>>, len |-> 2], [v |-> <<0, 6, 8>>, len |-> 10],
            [v |-> <<1, 2, 2>>, len |-> 3], [v |-> <<-4, 0, 3>>, len |-> 5], [v |-> <<0, 0, 1>>, len |-> 1],
            [v |-> <<2, -3, 6>>, len |-> 7] >>
ASSUME \A i \in 1..Len(Steps) : Norm2(Steps[i].v) = Steps[i].len * Steps[i].len

StepSeqs == UNION { { q \in [1..n -> 1..Len(Steps)] : \A i \in 1..(n - 1) : q[i] # q[i + 1] } : n \in 2..MaxSteps }
Start == <<1, -2, 3>>

VARIABLE q
Init == q \in StepSeqs
Next == UNCHANGED q
Spec == Init /\ [][Next]_q

N == Len(q)
RECURSIVE Pt(_)
Pt(i) == IF i = 0 THEN Start ELSE Add(Pt(i - 1), Steps[q[i]].v)       \* knot i (0-based)
RECURSIVE Cum(_)
Cum(i) == IF i = 0 THEN 0 ELSE Cum(i - 1) + Steps[q[i]].len
L == Cum(N)

\* segment (1-based) containing arc length sn/sd (the later one at a knot does not matter: both give the same point)
SegOf(sn, sd) == CHOOSE i \in 1..N : Cum(i - 1) * sd <= sn /\ sn <= Cum(i) * sd
\* exact point at arc length sn/sd: coordinates as <<num, den>>
PointAt(sn, sd) ==
    LET i == SegOf(sn, sd)
        len == Steps[q[i]].len
        v == Steps[q[i]].v
        p == Pt(i - 1)
    IN [c \in 1..3 |-> << p[c] * len * sd + (sn - Cum(i - 1) * sd) * v[c], len * sd >>]

\* the polyline length between two knots is the difference of cumulative lengths (spec-level identity)
RECURSIVE PolyLen(_, _)
PolyLen(i, j) == IF i >= j THEN 0 ELSE Steps[q[j]].len + PolyLen(i, j - 1)
LenAdditive == \A i, j, k \in 0..N : (i <= j /\ j <= k) => PolyLen(i, k) = PolyLen(i, j) + PolyLen(j, k)
KnotOnCurve == \A i \in 0..N : \A c \in 1..3 : LET pa == PointAt(Cum(i), 1) IN pa[c][1] = Pt(i)[c] * pa[c][2]

Samples == { <<k * L, SampleDen>> : k \in 0..SampleDen } \cup { <<Cum(i), 1>> : i \in 0..N }
Record == [ points |-> [i \in 1..(N + 1) |-> Pt(i - 1)], cum |-> [i \in 1..(N + 1) |-> Cum(i - 1)], length |-> L,
            samples |-> { [s |-> s, p |-> PointAt(s[1], s[2])] : s \in Samples } ]
Emit == PrintT(ToJson(Record))
=============================================================================
