-------------------------------- MODULE Precond --------------------------------
(***************************************************************************)
(* C20: construction and life-cycle preconditions are enforced             *)
(* symmetrically.                                                          *)
(*                                                                         *)
(* A precondition has a TYPE whose meaning is defined once:                *)
(*   Range(lo, hi)   an integer index must lie in lo..hi                   *)
(*   Count(n)        exactly n items                                       *)
(*   CountIn(lo,hi)  between lo and hi items                               *)
(*   AtLeast(n)      at least n items                                      *)
(*   Perp            a deviation d from perpendicularity must be 0         *)
(*                   (|d| within tolerance) - on BOTH sides                *)
(*   Positive        a length must be > 0                                  *)
(*   RatioIn01       a ratio must lie in (0, 1]                            *)
(*   Below           a value a must be strictly below a bound b            *)
(*   OpenAngle       an angle a must satisfy 0 < |a| < 2 pi                *)
(*   Requires(flag)  a life-cycle call needs the mesh to be assembled      *)
(*   NoneSolitary    a list of faces none of which is isolated             *)
(*   Unique / Exists a second clamp on a vertex / a clamp or link that     *)
(*                   matches no vertex                                     *)
(* and a set of argument CLASSES around its boundary.  The expectation     *)
(* (reject / accept) of every (call, class) row is DERIVED from the type,  *)
(* never written per row.  Values are integers; real-valued classes are    *)
(* given in tenths (Perp, Positive, RatioIn01, Below) or as multiples of   *)
(* pi/2 (OpenAngle).                                                       *)
(***************************************************************************)
EXTENDS Integers, Sequences, FiniteSets, TLC, Json

\* classes: value v tested against the condition
Holds(cond, v) ==
    CASE cond.type = "Range" -> cond.lo <= v /\ v <= cond.hi
      [] cond.type = "Count" -> v = cond.n
      [] cond.type = "CountIn" -> cond.lo <= v /\ v <= cond.hi
      [] cond.type = "AtLeast" -> v >= cond.n
      [] cond.type = "Perp" -> v = 0
      [] cond.type = "Positive" -> v > 0
      [] cond.type = "RatioIn01" -> 0 < v /\ v <= 10            \* tenths
      [] cond.type = "Below" -> v < cond.b                        \* tenths of the bound's unit
      [] cond.type = "OpenAngle" -> (0 < v /\ v < 4) \/ (-4 < v /\ v < 0)   \* quarter turns
      [] cond.type = "Requires" -> v = 1                           \* 1: precondition established, 0: never, 2: established and undone again
      [] cond.type = "Unique" -> v = 1                             \* number of clamps put on the vertex
      [] cond.type = "Exists" -> v = 1                             \* 1: matches a vertex, 0: does not
      [] cond.type = "NoneSolitary" -> v = 0                       \* position (1..3) of the face that touches no other face in a list of three; 0: none

\* classes on both sides of every boundary of the condition
Classes(cond) ==
    CASE cond.type = "Range" -> {cond.lo - 1, cond.lo, cond.hi, cond.hi + 1}
      [] cond.type = "Count" -> {cond.n - 1, cond.n, cond.n + 1}
      [] cond.type = "CountIn" -> {cond.lo - 1, cond.lo, cond.hi, cond.hi + 1}
      [] cond.type = "AtLeast" -> {cond.n - 1, cond.n, cond.n + 3}
      [] cond.type = "Perp" -> {-5, 0, 5}
      [] cond.type = "Positive" -> {-10, 10}
      [] cond.type = "RatioIn01" -> {-1, 0, 1, 10, 11}
      [] cond.type = "Below" -> {cond.b - 1, cond.b, cond.b + 1}
      [] cond.type = "OpenAngle" -> {-5, -4, -1, 0, 1, 3, 4, 5}
      [] cond.type = "Requires" -> {0, 1, 2}
      [] cond.type = "Unique" -> {1, 2}
      [] cond.type = "Exists" -> {0, 1}
      [] cond.type = "NoneSolitary" -> {0, 1, 2, 3}

Range(lo, hi) == [type |-> "Range", lo |-> lo, hi |-> hi, n |-> 0, b |-> 0]
Count(n) == [type |-> "Count", lo |-> 0, hi |-> 0, n |-> n, b |-> 0]
CountIn(lo, hi) == [type |-> "CountIn", lo |-> lo, hi |-> hi, n |-> 0, b |-> 0]
AtLeast(n) == [type |-> "AtLeast", lo |-> 0, hi |-> 0, n |-> n, b |-> 0]
Simple(t) == [type |-> t, lo |-> 0, hi |-> 0, n |-> 0, b |-> 0]
Below(b) == [type |-> "Below", lo |-> 0, hi |-> 0, n |-> 0, b |-> b]

\* the documented preconditions (call name -> condition)
Calls == {
    [call |-> "Face.points", cond |-> Count(4)],
    [call |-> "Face.edges", cond |-> Count(4)],
    [call |-> "Face.add_edge.corner", cond |-> Range(0, 3)],
    [call |-> "Operation.add_side_edge.corner", cond |-> Range(0, 3)],
    [call |-> "Operation.project_corner.corner", cond |-> Range(0, 7)],
    [call |-> "Operation.chop.axis", cond |-> Range(0, 2)],
    [call |-> "Block.add_edge.corner", cond |-> Range(0, 7)],
    [call |-> "Point.coordinates", cond |-> Count(3)],
    [call |-> "Array.points", cond |-> AtLeast(2)],
    [call |-> "Side.vertices", cond |-> Count(8)],
    [call |-> "Project.labels", cond |-> CountIn(1, 2)],
    [call |-> "Operation.project_edge.surfaces", cond |-> CountIn(1, 2)],
    [call |-> "Grading.add_chop.length_ratio", cond |-> Simple("RatioIn01")],
    [call |-> "ExtrudedRing.inner_radius", cond |-> Below(10)],
    [call |-> "ExtrudedRing.contract.inner_radius", cond |-> Below(10)],
    [call |-> "Cylinder.radius_vector", cond |-> Simple("Perp")],
    [call |-> "SemiCylinder.radius_vector", cond |-> Simple("Perp")],
    [call |-> "Frustum.radius_vector", cond |-> Simple("Perp")],
    [call |-> "ExtrudedRing.radius_vector", cond |-> Simple("Perp")],
    \* (the same requirement when the axis is given by two points very close together or very far apart: being perpendicular
    \*  is a matter of direction, not of how long the axis vector happens to be)
    [call |-> "Cylinder.radius_vector.short_axis", cond |-> Simple("Perp")],
    [call |-> "Cylinder.radius_vector.long_axis", cond |-> Simple("Perp")],
    [call |-> "SemiCylinder.radius_vector.short_axis", cond |-> Simple("Perp")],
    [call |-> "SemiCylinder.radius_vector.long_axis", cond |-> Simple("Perp")],
    [call |-> "Frustum.radius_vector.short_axis", cond |-> Simple("Perp")],
    [call |-> "Frustum.radius_vector.long_axis", cond |-> Simple("Perp")],
    [call |-> "ExtrudedRing.radius_vector.short_axis", cond |-> Simple("Perp")],
    [call |-> "ExtrudedRing.radius_vector.long_axis", cond |-> Simple("Perp")],
    [call |-> "Cylinder.chain.length", cond |-> Simple("Positive")],
    [call |-> "Frustum.chain.length", cond |-> Simple("Positive")],
    [call |-> "ExtrudedRing.chain.length", cond |-> Simple("Positive")],
    \* ... chaining backwards from the start face is asked for with the flag, never with a negative length
    [call |-> "Cylinder.chain.length.start_face", cond |-> Simple("Positive")],
    [call |-> "Frustum.chain.length.start_face", cond |-> Simple("Positive")],
    [call |-> "ExtrudedRing.chain.length.start_face", cond |-> Simple("Positive")],
    [call |-> "LoftedShape.face_counts", cond |-> Count(4)],
    [call |-> "LoftedShape.mid_face_counts", cond |-> Count(4)],
    \* several mid sketches: each of them has to match, wherever it stands in the list
    [call |-> "LoftedShape.mid_list_first", cond |-> Count(4)],
    [call |-> "LoftedShape.mid_list_second", cond |-> Count(4)],
    [call |-> "Angle.angle", cond |-> Simple("OpenAngle")],
    \* Shell.chop grades all lofts through one of them: every face has to touch another one, wherever it stands in the list
    [call |-> "Shell.chop.faces", cond |-> Simple("NoneSolitary")],
    [call |-> "Curve.param", cond |-> Range(0, 3)],
    [call |-> "Frame.add_beam.pair", cond |-> Simple("Exists")],
    [call |-> "Optimizer.add_clamp.second", cond |-> Simple("Unique")],
    [call |-> "Optimizer.add_clamp.position", cond |-> Simple("Exists")],
    [call |-> "Optimizer.add_link.leader", cond |-> Simple("Exists")],
    [call |-> "Optimizer.add_link.follower", cond |-> Simple("Exists")],
    \* (the same three for a model far from the origin and a position that misses its vertex by little - ten thousand merge
    \*  tolerances, a few millionths of the coordinates: whether a vertex is there is a matter of the merge tolerance)
    [call |-> "Optimizer.add_clamp.position.far", cond |-> Simple("Exists")],
    [call |-> "Optimizer.add_link.leader.far", cond |-> Simple("Exists")],
    [call |-> "Optimizer.add_link.follower.far", cond |-> Simple("Exists")],
    [call |-> "Mesh.grade", cond |-> Simple("Requires")],
    [call |-> "Mesh.backport", cond |-> Simple("Requires")] }

VARIABLE row
Init == \E c \in Calls : \E v \in Classes(c.cond) : row = [call |-> c.call, type |-> c.cond.type, class |-> v, expect |-> IF Holds(c.cond, v) THEN "accept" ELSE "reject"]
Next == UNCHANGED row
Spec == Init /\ [][Next]_row

\* symmetry: whenever a class is rejected and the condition is symmetric about 0, its mirror image is rejected too
Symmetric == row.type \in {"Perp", "OpenAngle"} =>
                \A c \in Calls : c.call = row.call => (Holds(c.cond, row.class) <=> Holds(c.cond, -row.class))
\* every condition has at least one accepted and one rejected class (both sides are exercised)
BothSides == \A c \in Calls : (\E v \in Classes(c.cond) : Holds(c.cond, v)) /\ (\E v \in Classes(c.cond) : ~Holds(c.cond, v))
Emit == PrintT(ToJson(row))
=============================================================================
