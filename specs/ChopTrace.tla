----------------------------- MODULE ChopTrace -----------------------------
(* Trace acceptor for the closure loop of Chop.calculate: every recorded     *)
(* application of a relation function must be an enabled Apply(rel) of       *)
(* Chop.tla, and a successful calculation must end with all five known.      *)
EXTENDS Naturals, Sequences, FiniteSets, TLC, Json, IOUtils, ChopRel

Recs == JsonDeserialize(IOEnv.VERIF_TRACE_FILE).recs
VARIABLE rec

RelByName(nm) == CHOOSE r \in Relations : r.name = nm
IsRel(nm) == \E r \in Relations : r.name = nm

RECURSIVE Run(_, _, _)
\* returns the set of known names after replaying events k.., or {"REJECT"} if an event is not enabled
Run(kn, ev, k) ==
    IF k > Len(ev) THEN kn
    ELSE IF ~IsRel(ev[k]) THEN {"REJECT"}
    ELSE LET r == RelByName(ev[k]) IN
         IF r.in \subseteq kn /\ r.out \notin kn THEN Run(kn \cup {r.out}, ev, k + 1) ELSE {"REJECT"}

Verdict(r) ==
    LET final == Run({ r.given[i] : i \in 1..Len(r.given) }, r.events, 1) IN
    IF final = {"REJECT"} THEN "step-not-enabled"
    ELSE IF r.ok /\ final # Names THEN "incomplete"
    ELSE IF Len(r.events) > 3 THEN "too-many-steps"
    ELSE "accepted"

TInit == LET rs == Recs IN \E i \in 1..Len(rs) : rec = rs[i]
TNext == UNCHANGED rec
TSpec == TInit /\ [][TNext]_rec
Emit2 == PrintT(ToJson([id |-> rec.id, verdict |-> Verdict(rec)]))
=============================================================================
