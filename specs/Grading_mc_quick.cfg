SPECIFICATION Spec
CONSTANTS
  Variant = "fixed"
  Topos = {"face2", "edge2", "corner2", "row3", "ell3", "hook3"}
  Rot1Choice = {1}
  RotChoice = {1, 11, 30}
  ChopOpts = {"A2", "B3", "D1E2"}
  MaxChopped = 2
  AllOrders = FALSE
  PassBound = 4
  Rounds = 1
  Cover = FALSE
INVARIANT TypeOK
INVARIANT PassBoundOK
INVARIANT OutcomeOK
INVARIANT WrittenAgree
INVARIANT Complete
INVARIANT SharedSame
INVARIANT NoPartial
PROPERTY Terminates
CHECK_DEADLOCK FALSE
