--------------------------------- MODULE Grid ---------------------------------
(***************************************************************************)
(* C19: grid, slice and core/shell addressing is geometric.                *)
(*                                                                         *)
(* A stack built on a cartesian grid of nx x ny faces with nz tiers has    *)
(* cells <<i, j, k>> (column, row, tier; 0-based).  The specification:     *)
(*   grid[k][j][i] is cell <<i, j, k>>                                     *)
(*   slice(axis, n) is exactly the set of cells with index n along axis    *)
(* TLC checks that the slices of an axis partition the cells, and judges   *)
(* recorded observations of the real stacks: for every address the cell    *)
(* the addressed operation geometrically occupies (found by the harness    *)
(* from its centre), the cells returned by every slice (with              *)
(* multiplicity), and the cell missing from the written file after the     *)
(* addressed operation was deleted.                                        *)
(* Round shapes / disk sketches: core and shell lists must partition the   *)
(* entities into those that do not / do touch the outer surface            *)
(* (predicate evaluated by the harness per entity).                        *)
(***************************************************************************)
EXTENDS Naturals, Sequences, FiniteSets, TLC, Json, IOUtils

CONSTANTS MaxX, MaxY, MaxZ

Cells(nx, ny, nz) == (0..(nx - 1)) \X (0..(ny - 1)) \X (0..(nz - 1))
Slice(nx, ny, nz, axis, n) == { c \in Cells(nx, ny, nz) : c[axis + 1] = n }
Count(axis, nx, ny, nz) == IF axis = 0 THEN nx ELSE IF axis = 1 THEN ny ELSE nz

VARIABLE s
MInit == s \in (1..MaxX) \X (1..MaxY) \X (1..MaxZ)
MSpec == MInit /\ [][UNCHANGED s]_s
SlicesPartition ==
    \A axis \in 0..2 :
        /\ UNION { Slice(s[1], s[2], s[3], axis, n) : n \in 0..(Count(axis, s[1], s[2], s[3]) - 1) } = Cells(s[1], s[2], s[3])
        /\ \A n, m \in 0..(Count(axis, s[1], s[2], s[3]) - 1) :
              n # m => Slice(s[1], s[2], s[3], axis, n) \cap Slice(s[1], s[2], s[3], axis, m) = {}

\* ---- judge -------------------------------------------------------------------
Recs == JsonDeserialize(IOEnv.VERIF_TRACE_FILE).recs
Range(f) == { f[x] : x \in DOMAIN f }
JInit == LET rs == Recs IN \E i \in 1..Len(rs) : s = rs[i]
JSpec == JInit /\ [][UNCHANGED s]_s
StackVerdict(r) ==
    { c \in {"grid-address", "slice-members", "slice-multiplicity", "delete"} :
        CASE c = "grid-address" ->
                \E k \in 1..r.nz, j \in 1..r.ny, i \in 1..r.nx : r.grid[k][j][i] # <<i - 1, j - 1, k - 1>>
          [] c = "slice-members" ->
                \E axis \in 0..2 : \E n \in 0..(Count(axis, r.nx, r.ny, r.nz) - 1) :
                    Range(r.slices[axis + 1][n + 1]) # Slice(r.nx, r.ny, r.nz, axis, n)
          [] c = "slice-multiplicity" ->
                \E axis \in 0..2 : \E n \in 0..(Count(axis, r.nx, r.ny, r.nz) - 1) :
                    Len(r.slices[axis + 1][n + 1]) # Cardinality(Slice(r.nx, r.ny, r.nz, axis, n))
          [] c = "delete" -> \E d \in Range(r.deleted) : d.missing # << d.addr >> }
\* round shapes: entity e has flags <<in_core, in_shell, touches_outer, coherent>>; coherent: the operation addressed at
\* a grid location is made of the faces of THAT location at both of its ends (always TRUE for the faces of a sketch)
RoundVerdict(r) ==
    \* (a sketch of three rings - core, round ring, outer ring - has entities that are neither core nor shell: those of the
    \*  middle ring, which do not reach the outer surface)
    { c \in {"not-a-partition", "core-touches-outer", "shell-inside", "outer-not-in-shell", "ends-from-different-locations"} :
        CASE c = "not-a-partition" -> \E e \in Range(r.entities) : (e[1] /\ e[2]) \/ (~e[1] /\ ~e[2] /\ (r.rings # 3 \/ e[3]))
          [] c = "outer-not-in-shell" -> \E e \in Range(r.entities) : e[3] /\ ~e[2]
          [] c = "core-touches-outer" -> \E e \in Range(r.entities) : e[1] /\ e[3]
          [] c = "shell-inside" -> \E e \in Range(r.entities) : e[2] /\ ~e[3]
          [] c = "ends-from-different-locations" -> \E e \in Range(r.entities) : ~e[4] }
JEmit == PrintT(ToJson([id |-> s.id, fails |-> IF s.kind = "stack" THEN StackVerdict(s) ELSE RoundVerdict(s)]))
=============================================================================
