SPECIFICATION Spec
INVARIANT Symmetric
INVARIANT BothSides
CONSTRAINT Emit
CHECK_DEADLOCK FALSE
