------------------------------ MODULE Lattice ------------------------------
(* Integer vectors: dot, cross, squared norm, integer orthogonal frames.     *)
EXTENDS Naturals, Integers, Sequences, FiniteSets, TLC

Dot(a, b) == a[1] * b[1] + a[2] * b[2] + a[3] * b[3]
Cross(a, b) == << a[2] * b[3] - a[3] * b[2], a[3] * b[1] - a[1] * b[3], a[1] * b[2] - a[2] * b[1] >>
Add(a, b) == << a[1] + b[1], a[2] + b[2], a[3] + b[3] >>
Sub(a, b) == << a[1] - b[1], a[2] - b[2], a[3] - b[3] >>
Scale(k, a) == << k * a[1], k * a[2], k * a[3] >>
Norm2(a) == Dot(a, a)
Neg(a) == Scale(-1, a)

\* right-handed integer frames of mutually orthogonal vectors of equal length
Frames == << [u |-> <<1, 0, 0>>, v |-> <<0, 1, 0>>, w |-> <<0, 0, 1>>, len |-> 1],
             [u |-> <<1, 2, 2>>, v |-> <<2, 1, -2>>, w |-> <<-2, 2, -1>>, len |-> 3],
             [u |-> <<2, 3, 6>>, v |-> <<3, -6, 2>>, w |-> <<6, 2, -3>>, len |-> 7],
             [u |-> <<0, 0, 1>>, v |-> <<1, 0, 0>>, w |-> <<0, 1, 0>>, len |-> 1] >>
ASSUME \A i \in 1..Len(Frames) :
         LET f == Frames[i] IN
         /\ Dot(f.u, f.v) = 0 /\ Dot(f.u, f.w) = 0 /\ Dot(f.v, f.w) = 0
         /\ Norm2(f.u) = f.len * f.len /\ Norm2(f.v) = f.len * f.len /\ Norm2(f.w) = f.len * f.len
         /\ Cross(f.u, f.v) = Scale(f.len, f.w)
\* world point of plane coordinates (a, b) and height h in frame f about centre c
InFrame(f, c, a, b, h) == Add(c, Add(Scale(a, f.u), Add(Scale(b, f.v), Scale(h, f.w))))
=============================================================================
