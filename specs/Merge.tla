-------------------------------- MODULE Merge --------------------------------
(***************************************************************************)
(* MappedSketch.merge: quad maps built from pieces.  A sketch is a list of *)
(* positions (here: lattice point ids) and a list of quads indexing it.    *)
(* Merging appends, sketch by sketch, the positions not seen yet (in the   *)
(* order of the sketch that brings them) and the quads re-indexed to the   *)
(* common list.  The state machine merges a list of pieces one at a time   *)
(* (merge([b, c]) = merge(b) then merge(c)); the invariants say what a     *)
(* user of the merged map relies on (C15: a point shared by faces of two   *)
(* pieces is ONE point of the map, so that smoothing averages across the   *)
(* seam and copies back to every face):                                    *)
(*   Unique    no position twice in the list                               *)
(*   Covers    the list holds exactly the positions of the pieces merged   *)
(*   Faithful  every face still refers to the points it was made of        *)
(*   Stable    what was there keeps its index (action property)            *)
(* Pieces are strips of unit quads on a small lattice, their position      *)
(* lists row by row or reversed; TLC checks the invariants over all lists  *)
(* of up to MaxPieces pieces and emits every finished merge with the       *)
(* expected position list and quads, which the harness replays into the    *)
(* real MappedSketch.merge and compares index by index.                    *)
(***************************************************************************)
EXTENDS Naturals, Sequences, FiniteSets, Json, TLC

CONSTANTS MaxPieces,     \* pieces merged into the first one (1..2)
          Cols, Rows     \* sets of start columns / rows of the strips

Pt(x, y) == x + 10 * y
Range(f) == { f[i] : i \in DOMAIN f }
Rev(s) == [i \in 1..Len(s) |-> s[Len(s) + 1 - i]]
IndexOf(s, p) == CHOOSE i \in 1..Len(s) : s[i] = p

\* a strip of w unit quads starting at column c, row r
StripPos(c, r, w, rev) ==
    LET row(y) == [i \in 1..(w + 1) |-> Pt(c + i - 1, y)]
        seq == row(r) \o row(r + 1)
    IN IF rev THEN Rev(seq) ELSE seq
Strip(c, r, w, rev) ==
    LET ps == StripPos(c, r, w, rev) IN
    [ pos |-> ps,
      quads |-> [q \in 1..w |-> << IndexOf(ps, Pt(c + q - 1, r)), IndexOf(ps, Pt(c + q, r)),
                                   IndexOf(ps, Pt(c + q, r + 1)), IndexOf(ps, Pt(c + q - 1, r + 1)) >>] ]
Pieces == { Strip(c, r, w, rev) : c \in Cols, r \in Rows, w \in 1..2, rev \in BOOLEAN }
FacesOf(s) == [j \in 1..Len(s.quads) |-> [k \in 1..4 |-> s.pos[s.quads[j][k]]]]

\* merge_two_sketches
MergeOne(s, b) ==
    LET new == SelectSeq(b.pos, LAMBDA p : p \notin Range(s.pos))
        all == s.pos \o new
    IN [ pos |-> all,
         quads |-> s.quads \o [j \in 1..Len(b.quads) |-> [k \in 1..4 |-> IndexOf(all, b.pos[b.quads[j][k]])]] ]

VARIABLES acc,      \* the sketch being merged into
          todo,     \* pieces still to merge
          first,    \* (history) the piece it started as
          others,   \* (history) the pieces merged, in order
          faces     \* (history) the faces of all pieces so far, as point ids
vars == <<acc, todo, first, others, faces>>

Init == /\ \E a \in { p \in Pieces : ~ (p.pos[1] > p.pos[2]) } :        \* the first piece row by row
            /\ acc = a /\ first = a /\ faces = FacesOf(a)
        /\ \E n \in 1..MaxPieces : todo \in [1..n -> Pieces]
        /\ others = <<>>
Step == /\ todo # <<>>
        /\ acc' = MergeOne(acc, Head(todo))
        /\ faces' = faces \o FacesOf(Head(todo))
        /\ others' = Append(others, Head(todo))
        /\ todo' = Tail(todo)
        /\ UNCHANGED first
Spec == Init /\ [][Step]_vars

Unique == \A i, j \in 1..Len(acc.pos) : acc.pos[i] = acc.pos[j] => i = j
Covers == Range(acc.pos) = Range(first.pos) \cup UNION { Range(others[i].pos) : i \in 1..Len(others) }
Faithful == /\ Len(acc.quads) = Len(faces)
            /\ \A j \in 1..Len(faces) : \A k \in 1..4 : acc.pos[acc.quads[j][k]] = faces[j][k]
Stable == [][ /\ \A i \in 1..Len(acc.pos) : acc'.pos[i] = acc.pos[i]
              /\ \A j \in 1..Len(acc.quads) : acc'.quads[j] = acc.quads[j] ]_vars

Emit == (todo = <<>>) => PrintT(ToJson([ first |-> first, others |-> others, pos |-> acc.pos, quads |-> acc.quads ]))
=============================================================================
