------------------------------- MODULE Vertices -------------------------------
(***************************************************************************)
(* C05 at design level: the vertex table as an insertion state machine     *)
(* (Mesh._add_vertices + VertexList.add: look a corner up by position and  *)
(* by the sorted set of SLAVE patches touching it, create a vertex if none *)
(* matches) checked against the declarative statement of the property for  *)
(* ALL insertion orders, corner numberings and patch placements of small   *)
(* assemblies.                                                             *)
(*                                                                         *)
(* Cells are unit cells of a 2 x 2 x 1 lattice; a block is a cell with one *)
(* of the rotational numberings of Hex.tla; each block carries at most     *)
(* MaxPatched patched sides with names from PatchNames; Merged is the set  *)
(* of <<master, slave>> pairs.                                             *)
(***************************************************************************)
EXTENDS Hex, Json

CONSTANTS NBlocks, RotChoice, MaxPatched, MergedIdx
PatchNames == {"m1", "s1", "m2", "s2"}
MergedSets == << {}, { <<"m1", "s1">> }, { <<"m1", "s1">>, <<"m2", "s2">> } >>
Merged == MergedSets[MergedIdx]
Slaves == { p[2] : p \in Merged }

CellSeqs == IF NBlocks = 2 THEN { << <<0, 0, 0>>, <<1, 0, 0>> >>, << <<0, 0, 0>>, <<1, 1, 0>> >> }
            ELSE { << <<0, 0, 0>>, <<1, 0, 0>>, <<0, 1, 0>> >>, << <<0, 0, 0>>, <<1, 0, 0>>, <<1, 1, 0>> >> }
PosId(p) == p[1] + 3 * p[2] + 9 * p[3]
BlockPts(cell, rot) == [k \in 1..8 |-> LET c == XYZTab[SymTab[rot][k] + 1] IN PosId(<<cell[1] + c[1], cell[2] + c[2], cell[3] + c[3]>>)]
SideSeq == <<"bottom", "top", "left", "right", "front", "back">>
Assignments == { a \in [1..6 -> PatchNames \cup {""}] : Cardinality({ i \in 1..6 : a[i] # "" }) <= MaxPatched }

VARIABLES pts,      \* [1..NBlocks -> [1..8 -> position id]]      (configuration)
          patch,    \* [1..NBlocks -> [1..6 -> patch name or ""]]  (configuration)
          order,    \* insertion order (a permutation of the blocks)
          table,    \* the vertex table: sequence of [pos, slaves]
          ref,      \* [<<block, corner>> -> vertex index] for corners inserted so far
          pc        \* <<position in order, corner>> next to insert; <<NBlocks + 1, 0>> when done
vars == <<pts, patch, order, table, ref, pc>>

SideIdx(s) == CHOOSE i \in 1..6 : SideSeq[i] = s
PatchesAt(b, c) == { patch[b][SideIdx(s)] : s \in SidesAtCorner(c) } \ {""}
SlaveSet(b, c) == PatchesAt(b, c) \cap Slaves

Init == /\ \E cells \in CellSeqs : \E rots \in [1..NBlocks -> RotChoice] : pts = [b \in 1..NBlocks |-> BlockPts(cells[b], rots[b])]
        /\ patch \in [1..NBlocks -> Assignments]
        /\ order \in { o \in [1..NBlocks -> 1..NBlocks] : \A i, j \in 1..NBlocks : i # j => o[i] # o[j] }
        /\ table = <<>> /\ ref = <<>> /\ pc = <<1, 0>>

\* VertexList.add for the corner at pc: find_duplicated(position, sorted slave patches) else create
Insert ==
    /\ pc[1] <= NBlocks
    /\ LET b == order[pc[1]] c == pc[2]
           key == [pos |-> pts[b][c + 1], slaves |-> SlaveSet(b, c)]
           hits == { i \in 1..Len(table) : table[i] = key }
       IN /\ IF hits = {} THEN /\ table' = Append(table, key)
                               /\ ref' = [x \in DOMAIN ref \cup {<<b, c>>} |-> IF x = <<b, c>> THEN Len(table) + 1 ELSE ref[x]]
             ELSE /\ table' = table
                  /\ ref' = [x \in DOMAIN ref \cup {<<b, c>>} |-> IF x = <<b, c>> THEN (CHOOSE i \in hits : \A j \in hits : i <= j) ELSE ref[x]]
          /\ pc' = IF c < 7 THEN <<pc[1], c + 1>> ELSE <<pc[1] + 1, 0>>
    /\ UNCHANGED <<pts, patch, order>>
Next == Insert
Spec == Init /\ [][Next]_vars

\* ---- the declarative statement (as in Render.tla C05_*), on the finished table
Done == pc[1] > NBlocks
Refs == DOMAIN ref
Positions == Done => \A x \in Refs : table[ref[x]].pos = pts[x[1]][x[2] + 1]
Shared == Done => \A x, y \in Refs :
             (pts[x[1]][x[2] + 1] = pts[y[1]][y[2] + 1] /\ SlaveSet(x[1], x[2]) = SlaveSet(y[1], y[2])) => ref[x] = ref[y]
Distinct == Done => \A x, y \in Refs : pts[x[1]][x[2] + 1] # pts[y[1]][y[2] + 1] => ref[x] # ref[y]
MasterSlave == Done => \A x, y \in Refs : \A p \in Merged :
                  LET px == PatchesAt(x[1], x[2]) py == PatchesAt(y[1], y[2]) IN
                  (p[2] \in px /\ p[1] \notin px /\ p[1] \in py /\ p[2] \notin py) => ref[x] # ref[y]
Dense == Done => { ref[x] : x \in Refs } = 1..Len(table)
\* the partition of corners does not depend on the insertion order: it is a function of the corner keys
OrderFree == Done => \A x, y \in Refs : (ref[x] = ref[y]) <=>
                (pts[x[1]][x[2] + 1] = pts[y[1]][y[2] + 1] /\ SlaveSet(x[1], x[2]) = SlaveSet(y[1], y[2]))

\* emission of finished configurations for replay through Mesh.assemble()/write() (judged by Render.tla)
Emit == Done => PrintT(ToJson([pts |-> pts, patch |-> patch, order |-> order, merged |-> Merged, nverts |-> Len(table)]))
=============================================================================
