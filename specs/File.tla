--------------------------------- MODULE File ---------------------------------
(***************************************************************************)
(* Well-formedness of a written blockMeshDict, stated on the parsed file   *)
(* alone - what blockMesh itself requires of its input, whatever script    *)
(* produced it.  Trace acceptor: one record per written file (the          *)
(* repository's example scripts, and any other write the harness records). *)
(*                                                                         *)
(*   nv       number of vertices                                           *)
(*   vcls     [1..nv] class of the vertex position (equal class = same     *)
(*            point within the merge tolerance; clustered by the harness)  *)
(*   vproj    [1..nv] labels a vertex is projected to                      *)
(*   blocks   v (8 vertex indexes, 0-based), n (3 cell counts)             *)
(*   jac      [block][corner] corner Jacobian positive (harness, from the  *)
(*            vertex positions in the corner convention of Hex.tla)        *)
(*   edges    v1, v2, kind, labels                                         *)
(*   patches  name, quads; merged: <<master, slave>> pairs                 *)
(*   faces    quad, label;  geom: labels defined in the geometry section   *)
(*                                                                         *)
(* Serves C06 (indices, patch and projected quads are block sides,         *)
(* geometries defined), C05 (one vertex per point), C07 (edges between the *)
(* ends of block edges, once), C01 (one cell count per shared edge), C11   *)
(* (right-handed, conformal).  Derived per-file data are state variables   *)
(* computed in Init (TLC re-evaluates definitions at every use).           *)
(***************************************************************************)
EXTENDS Hex, Json, IOUtils

Recs == JsonDeserialize(IOEnv.VERIF_TRACE_FILE).recs
Range(f) == { f[x] : x \in DOMAIN f }

VARIABLES rec,     \* the file record
          sob,     \* [block -> set of its six sides (vertex sets)]
          eob,     \* [block -> [axis -> set of its four edges along that axis (vertex pairs as sets)]]
          vs       \* [block -> set of its vertices]
vars == <<rec, sob, eob, vs>>

Blocks(r) == 1..Len(r.blocks)
BV(r, b, c) == r.blocks[b].v[c + 1]
Proper(b) == Cardinality(vs[b]) = 8            \* collapsed (wedge-like) blocks are exempt from the side clauses

AllSides == UNION { sob[b] : b \in DOMAIN sob }
AllEdges == UNION { UNION { eob[b][a] : a \in Axes } : b \in DOMAIN eob }
OwnersOfSide(q) == { b \in DOMAIN sob : q \in sob[b] }

\* ---- clauses ----------------------------------------------------------------
Indices(r) ==
    LET used == UNION { vs[b] : b \in DOMAIN vs }
                \cup UNION { {e.v1, e.v2} : e \in Range(r.edges) }
                \cup UNION { UNION { Range(q) : q \in Range(p.quads) } : p \in Range(r.patches) }
                \cup UNION { Range(f.quad) : f \in Range(r.faces) }
    IN used \subseteq 0..(r.nv - 1)
\* every listed vertex is used by a block
NoOrphans(r) == (0..(r.nv - 1)) \subseteq UNION { vs[b] : b \in DOMAIN vs }
\* without merged patch pairs no two vertices are at the same point
OnePerPoint(r) == r.merged = <<>> => \A i, j \in 1..r.nv : r.vcls[i] = r.vcls[j] => i = j
\* a curved edge joins the two ends of a block edge, and is given once
EdgesOnBlocks(r) == \A e \in Range(r.edges) : e.v1 # e.v2 /\ {e.v1, e.v2} \in AllEdges
EdgesOnce(r) == \A i, j \in 1..Len(r.edges) : {r.edges[i].v1, r.edges[i].v2} = {r.edges[j].v1, r.edges[j].v2} => i = j
\* every edge of the blocking carries one cell count, from whichever block
CountsAgree(r) == \A b, c \in Blocks(r) : \A a1, a2 \in Axes :
                     (b < c /\ eob[b][a1] \cap eob[c][a2] # {}) => r.blocks[b].n[a1 + 1] = r.blocks[c].n[a2 + 1]
CountsPositive(r) == \A b \in Blocks(r) : \A k \in 1..3 : r.blocks[b].n[k] >= 1
\* a patch quad is a side of exactly one block (an outer side), listed once over all patches
PatchQuadsOuter(r) == \A p \in Range(r.patches) : \A q \in Range(p.quads) :
                         Len(q) = 4 /\ (Cardinality(Range(q)) = 4 => Cardinality(OwnersOfSide(Range(q))) = 1)
PatchQuadsOnce(r) == \A p1, p2 \in 1..Len(r.patches) : \A i \in 1..Len(r.patches[p1].quads) : \A j \in 1..Len(r.patches[p2].quads) :
                        Range(r.patches[p1].quads[i]) = Range(r.patches[p2].quads[j]) => (p1 = p2 /\ i = j)
PatchNamesOnce(r) == \A i, j \in 1..Len(r.patches) : r.patches[i].name = r.patches[j].name => i = j
MergedExist(r) == \A m \in Range(r.merged) : \A k \in 1..2 : \E p \in Range(r.patches) : p.name = m[k]
\* a projected quad is a side of some block; whatever is projected to is defined
FacesAreSides(r) == \A f \in Range(r.faces) : Cardinality(Range(f.quad)) = 4 => Range(f.quad) \in AllSides
LabelsDefined(r) == LET labs == { f.label : f \in Range(r.faces) } \cup UNION { Range(l) : l \in Range(r.vproj) }
                                \cup UNION { Range(e.labels) : e \in Range(r.edges) }
                    IN labs \subseteq Range(r.geom)
\* right-handed blocks; two blocks with three or more common vertices have a whole side in common; no side in three blocks
RightHanded(r) == \A b \in Blocks(r) : Proper(b) => \A c \in 1..8 : r.jac[b][c]
WholeSides(r) == \A b, c \in Blocks(r) : (b < c /\ Proper(b) /\ Proper(c) /\ Cardinality(vs[b] \cap vs[c]) >= 3)
                    => (vs[b] \cap vs[c]) \in (sob[b] \cap sob[c])
SidesTwice(r) == \A q \in AllSides : Cardinality(q) = 4 => Cardinality(OwnersOfSide(q)) <= 2

Clauses == << "Indices", "NoOrphans", "OnePerPoint", "EdgesOnBlocks", "EdgesOnce", "CountsAgree", "CountsPositive", "PatchQuadsOuter",
              "PatchQuadsOnce", "PatchNamesOnce", "MergedExist", "FacesAreSides", "LabelsDefined", "RightHanded", "WholeSides", "SidesTwice" >>
Holds(c, r) ==
    CASE c = "Indices" -> Indices(r) [] c = "NoOrphans" -> NoOrphans(r) [] c = "OnePerPoint" -> OnePerPoint(r)
      [] c = "EdgesOnBlocks" -> EdgesOnBlocks(r) [] c = "EdgesOnce" -> EdgesOnce(r) [] c = "CountsAgree" -> CountsAgree(r)
      [] c = "CountsPositive" -> CountsPositive(r) [] c = "PatchQuadsOuter" -> PatchQuadsOuter(r) [] c = "PatchQuadsOnce" -> PatchQuadsOnce(r)
      [] c = "PatchNamesOnce" -> PatchNamesOnce(r) [] c = "MergedExist" -> MergedExist(r) [] c = "FacesAreSides" -> FacesAreSides(r)
      [] c = "LabelsDefined" -> LabelsDefined(r) [] c = "RightHanded" -> RightHanded(r) [] c = "WholeSides" -> WholeSides(r)
      [] c = "SidesTwice" -> SidesTwice(r)
\* with an index out of range nothing else can be evaluated
Verdict(r) == IF ~Indices(r) THEN {"Indices"} ELSE { Clauses[i] : i \in { k \in 1..Len(Clauses) : ~Holds(Clauses[k], r) } }

Init == LET rs == Recs IN \E i \in 1..Len(rs) :
          /\ rec = rs[i]
          /\ vs = [b \in Blocks(rs[i]) |-> Range(rs[i].blocks[b].v)]
          /\ sob = [b \in Blocks(rs[i]) |-> { { BV(rs[i], b, c) : c \in SideCorners(s) } : s \in SideNames }]
          \* (collapsed edges - both ends the same vertex - are not edges)
          /\ eob = [b \in Blocks(rs[i]) |-> [a \in Axes |->
                     { e \in { { BV(rs[i], b, AxisWireTab[a][w][1]), BV(rs[i], b, AxisWireTab[a][w][2]) } : w \in 1..4 } : Cardinality(e) = 2 }]]
Spec == Init /\ [][UNCHANGED vars]_vars
Emit == PrintT(ToJson([id |-> rec.id, fails |-> Verdict(rec)]))
=============================================================================
