-------------------------------- MODULE Xform --------------------------------
(***************************************************************************)
(* C09: transforming an entity equals transforming its output geometry.    *)
(*                                                                         *)
(* Exact lattice maps: translations, quarter-turn rotations about lattice  *)
(* axes through ARBITRARY lattice origins (axes given non-unit), integer   *)
(* scalings about arbitrary origins, mirrors in planes through arbitrary   *)
(* points with non-unit normals; compositions of up to MaxLen of them.     *)
(* For every composition TLC computes the exact images of probe points     *)
(* (positions) and probe vectors (directions: linear part only) and the    *)
(* factor by which lengths scale.  The harness applies the same list to    *)
(* real entities - by method calls or as a transformation list - and       *)
(* compares their output geometry with these images.                       *)
(***************************************************************************)
EXTENDS Lattice, Json

CONSTANTS MaxLen

\* catalogue (kind, parameters); angles in quarter turns about axis index 1..3 (x,y,z)
Catalogue == <<
    [kind |-> "translate", d |-> <<2, -3, 5>>, axis |-> <<0, 0, 0>>, q |-> 0, o |-> <<0, 0, 0>>, r |-> 1],
    [kind |-> "rotate", d |-> <<0, 0, 0>>, axis |-> <<0, 0, 2>>, q |-> 1, o |-> <<1, 2, 0>>, r |-> 1],
    [kind |-> "rotate", d |-> <<0, 0, 0>>, axis |-> <<3, 0, 0>>, q |-> 2, o |-> <<0, -1, 3>>, r |-> 1],
    [kind |-> "rotate", d |-> <<0, 0, 0>>, axis |-> <<0, 5, 0>>, q |-> 3, o |-> <<4, 0, 1>>, r |-> 1],
    [kind |-> "scale", d |-> <<0, 0, 0>>, axis |-> <<0, 0, 0>>, q |-> 0, o |-> <<1, 1, 1>>, r |-> 2],
    [kind |-> "scale", d |-> <<0, 0, 0>>, axis |-> <<0, 0, 0>>, q |-> 0, o |-> <<-2, 0, 4>>, r |-> 3],
    [kind |-> "mirror", d |-> <<0, 0, 0>>, axis |-> <<3, 0, 0>>, q |-> 0, o |-> <<2, 5, -1>>, r |-> 1],
    [kind |-> "mirror", d |-> <<0, 0, 0>>, axis |-> <<1, 1, 0>>, q |-> 0, o |-> <<0, 3, 2>>, r |-> 1],
    [kind |-> "mirror", d |-> <<0, 0, 0>>, axis |-> <<0, 2, -2>>, q |-> 0, o |-> <<1, 0, 0>>, r |-> 1] >>

\* quarter turn of a VECTOR about coordinate axis a (1..3), counter-clockwise (right-hand rule)
Q1(v, a) == CASE a = 1 -> << v[1], -v[3], v[2] >>
              [] a = 2 -> << v[3], v[2], -v[1] >>
              [] a = 3 -> << -v[2], v[1], v[3] >>
RECURSIVE Turn(_, _, _)
Turn(v, a, n) == IF n = 0 THEN v ELSE Turn(Q1(v, a), a, n - 1)
AxisIdx(ax) == CHOOSE i \in 1..3 : ax[i] # 0
AxisSign(ax) == IF ax[AxisIdx(ax)] > 0 THEN 1 ELSE -1

\* linear part applied to a vector
Lin(t, v) ==
    CASE t.kind = "translate" -> v
      [] t.kind = "rotate" -> Turn(v, AxisIdx(t.axis), IF AxisSign(t.axis) = 1 THEN t.q ELSE (4 - t.q) % 4)
      [] t.kind = "scale" -> Scale(t.r, v)
      [] t.kind = "mirror" -> LET n == t.axis nn == Norm2(n) dd == 2 * Dot(v, n) IN
                              << v[1] - (dd * n[1]) \div nn, v[2] - (dd * n[2]) \div nn, v[3] - (dd * n[3]) \div nn >>
\* affine map applied to a point
Aff(t, p) == IF t.kind = "translate" THEN Add(p, t.d) ELSE Add(t.o, Lin(t, Sub(p, t.o)))

\* mirrors in the catalogue are exact on the lattice (2 (v.n) n / (n.n) is integral)
ASSUME \A i \in 1..Len(Catalogue) : Catalogue[i].kind = "mirror" =>
          \A c \in 1..3 : (2 * Catalogue[i].axis[c] * Catalogue[i].axis[1]) % Norm2(Catalogue[i].axis) = 0
                          /\ (2 * Catalogue[i].axis[c] * Catalogue[i].axis[2]) % Norm2(Catalogue[i].axis) = 0
                          /\ (2 * Catalogue[i].axis[c] * Catalogue[i].axis[3]) % Norm2(Catalogue[i].axis) = 0

Probes == << <<0, 0, 0>>, <<1, 0, 0>>, <<0, 1, 0>>, <<0, 0, 1>>, <<2, -1, 3>>, <<-3, 4, 1>> >>

RECURSIVE AffSeq(_, _, _)
AffSeq(ts, p, i) == IF i > Len(ts) THEN p ELSE AffSeq(ts, Aff(Catalogue[ts[i]], p), i + 1)
RECURSIVE LinSeq(_, _, _)
LinSeq(ts, v, i) == IF i > Len(ts) THEN v ELSE LinSeq(ts, Lin(Catalogue[ts[i]], v), i + 1)
RECURSIVE Ratio(_, _)
Ratio(ts, i) == IF i > Len(ts) THEN 1 ELSE Catalogue[ts[i]].r * Ratio(ts, i + 1)
Mirrors(ts) == Cardinality({ i \in 1..Len(ts) : Catalogue[ts[i]].kind = "mirror" })

VARIABLE ts
Init == ts \in UNION { [1..n -> 1..Len(Catalogue)] : n \in 1..MaxLen }
Next == UNCHANGED ts
Spec == Init /\ [][Next]_ts

\* the composed map is a similarity: squared distances scale by ratio^2, and it is affine (images of differences)
Similarity == \A i, j \in 1..Len(Probes) :
                 /\ Norm2(Sub(AffSeq(ts, Probes[i], 1), AffSeq(ts, Probes[j], 1))) = Ratio(ts, 1) * Ratio(ts, 1) * Norm2(Sub(Probes[i], Probes[j]))
                 /\ Sub(AffSeq(ts, Probes[i], 1), AffSeq(ts, Probes[j], 1)) = LinSeq(ts, Sub(Probes[i], Probes[j]), 1)
Record == [ ts |-> [i \in 1..Len(ts) |-> Catalogue[ts[i]]], idx |-> ts,
            images |-> [i \in 1..Len(Probes) |-> AffSeq(ts, Probes[i], 1)],
            vimages |-> [i \in 1..Len(Probes) |-> LinSeq(ts, Probes[i], 1)],
            ratio |-> Ratio(ts, 1), mirrors |-> Mirrors(ts), probes |-> Probes ]
Emit == PrintT(ToJson(Record))
=============================================================================
