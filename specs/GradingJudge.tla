--------------------------- MODULE GradingJudge ---------------------------
(***************************************************************************)
(* Trace acceptor for C01 / C02 on assemblies TLC did not enumerate:       *)
(* each record is one execution of the real code                           *)
(*   blocks  : 8 vertex indexes per block (as written / Block.indexes)     *)
(*   user    : total cell count of the user's chops per block direction    *)
(*             (0 = no chop)                                               *)
(*   outcome : "Written" | "Undefined" | "Inconsistent" | other            *)
(*   counts  : (nx ny nz) per block as parsed from the written file        *)
(* The declarative part of Grading.tla (families, expected outcome) is     *)
(* re-stated over the RECORDED topology; TLC prints which clauses fail.    *)
(***************************************************************************)
EXTENDS Hex, Json, IOUtils

Data == JsonDeserialize(IOEnv.VERIF_TRACE_FILE)
Recs == Data.recs

VARIABLE rec

NodesR(r) == (1..r.nb) \X Axes
NodeEdges(r, n) == { {r.blocks[n[1]][AxisWireTab[n[2]][i][1] + 1], r.blocks[n[1]][AxisWireTab[n[2]][i][2] + 1]} : i \in 1..4 }
AdjMap(r) == LET ne == [n \in NodesR(r) |-> NodeEdges(r, n)]
             IN [n \in NodesR(r) |-> { m \in NodesR(r) : m # n /\ ne[m] \cap ne[n] # {} }]

\* connected components by label propagation: every node ends with the least node of its family
MinOf(S) == CHOOSE x \in S : \A y \in S : x[1] < y[1] \/ (x[1] = y[1] /\ x[2] <= y[2])
RECURSIVE Labels(_, _, _)
Labels(l, adj, k) ==
    LET l2 == [n \in DOMAIN l |-> MinOf({l[n]} \cup { l[m] : m \in adj[n] })]
    IN IF k = 0 \/ l2 = l THEN l ELSE Labels(l2, adj, k - 1)

User(r, n) == r.user[n[1]][n[2] + 1]
Cnt(r, n) == r.counts[n[1]][n[2] + 1]

Judge(r) ==
    LET adj == AdjMap(r)
        nodes == NodesR(r)
        lab == Labels([n \in nodes |-> n], adj, 3 * r.nb)
        reps == { lab[n] : n \in nodes }
        tot == [x \in reps |-> { User(r, n) : n \in { m \in nodes : lab[m] = x /\ User(r, m) > 0 } }]
        unchopped == \E x \in reps : tot[x] = {}
        conflict == \E x \in reps : Cardinality(tot[x]) > 1
        written == r.outcome = "Written"
        \* C01: shared edges agree on the written count
        agree == written => \A n \in nodes : \A m \in adj[n] : Cnt(r, n) = Cnt(r, m)
        \* C01: a conflict is never written
        noSilentConflict == conflict => ~written
        \* C01: a conflict with all families chopped is reported as inconsistent grading
        conflictClass == (conflict /\ ~unchopped) => r.outcome = "Inconsistent"
        \* C02: complete and derived from the chop
        complete == (~unchopped /\ ~conflict) =>
                        /\ written
                        /\ \A n \in nodes : Cnt(r, n) = CHOOSE c \in tot[lab[n]] : TRUE
        \* C02: under-specified -> undefined-grading error
        under == unchopped => (r.outcome = "Undefined" \/ (conflict /\ r.outcome = "Inconsistent"))
    IN { c \in {"agree", "noSilentConflict", "conflictClass", "complete", "under"} :
            ~ (CASE c = "agree" -> agree [] c = "noSilentConflict" -> noSilentConflict
                 [] c = "conflictClass" -> conflictClass [] c = "complete" -> complete [] c = "under" -> under) }

\* the file is read once, in Init; every record becomes one initial state
Init == LET rs == Recs IN \E i \in 1..Len(rs) : rec = rs[i]
Next == UNCHANGED rec
Spec == Init /\ [][Next]_rec
Verdict == PrintT(ToJson([id |-> rec.id, fails |-> Judge(rec)]))
=============================================================================
