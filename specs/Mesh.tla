-------------------------------- MODULE Mesh --------------------------------
(***************************************************************************)
(* Life cycle of a classy_blocks Mesh (C12): the user-level model (depot,  *)
(* deleted set, entity positions, patch modifications, default patch,      *)
(* merged pairs) and the assembled state (block list, moved vertices) as a *)
(* state machine over the public calls                                     *)
(*   add, delete, assemble, move vertex, backport, clear, modify_patch,    *)
(*   set_default_patch, merge_patches, write.                              *)
(* For every Write the specification says which FRESHLY BUILT model the    *)
(* written dictionary must be equal to (FreshModel).  TLC enumerates the   *)
(* histories; the harness replays each through the real API and compares   *)
(* the parsed file with the file of the fresh model.                       *)
(*                                                                         *)
(* Operations are lattice boxes; positions are abstract ids, a moved       *)
(* vertex goes to a fresh id (Moved(p)) so topology never changes.         *)
(***************************************************************************)
EXTENDS Naturals, Sequences, FiniteSets, TLC, Json

CONSTANTS Variant,   \* "shipped" (pinned commit) | "fixed" (current tree)
          NOps,      \* operations the user may add (1..NOps)
          MaxLen,    \* bound on the history length
          MaxWrites  \* bound on the number of Write calls in a history

Ops == 1..NOps
Corners == 1..8

\* base position id of corner k of operation o : boxes in a row sharing faces (o, o+1)
\* corner layout (blockMesh): 1..4 bottom (z=0) 5..8 top; x from o-1 to o
Base(o, k) == LET x == IF k \in {2, 3, 6, 7} THEN o ELSE o - 1
                  y == IF k \in {3, 4, 7, 8} THEN 1 ELSE 0
                  z == IF k > 4 THEN 1 ELSE 0
              IN x + 10 * y + 100 * z
AllBase == { Base(o, k) : o \in Ops, k \in Corners }
Moved(p) == p + 1000          \* a position nobody else occupies
Positions == AllBase \cup { Moved(p) : p \in AllBase } \cup { Moved(Moved(p)) : p \in AllBase }

PatchNames == {"inlet", "outlet", "walls"}
NoMod == <<"none", FALSE>>
Kinds == {"wall", "cyclic"}

VARIABLES depot,      \* sequence of added operations (order of Mesh.add)
          deleted,    \* set of operations excluded by Mesh.delete
          epos,       \* [Ops -> [Corners -> position]] positions held by the user's entities
          assembled,  \* has Mesh.assemble() run (and not been cleared)
          blk,        \* when assembled: sequence of operations that became blocks
          vpos,       \* when assembled: [position at assembly -> current vertex position]
          pmod,       \* [PatchNames -> <<kind, settings>>] modifications made through the mesh ("none")
          pmodLive,   \* shipped variant: modifications currently held by the patch table
          dflt,       \* default patch: "none" or kind
          merged,     \* sequence of <<master, slave>>
          hist,       \* history of calls (for replay)
          prefix,     \* calls made before the explored part of the history starts (chosen in Init)
          wexp,       \* per Write: the fresh model the file must equal, and the entity positions
          nwrites

vars == <<depot, deleted, epos, assembled, blk, vpos, pmod, pmodLive, dflt, merged, hist, prefix, wexp, nwrites>>

InDepot(o) == \E i \in 1..Len(depot) : depot[i] = o
Live == SelectSeq(depot, LAMBDA o : o \notin deleted)
PosSet(seqops) == { epos[seqops[i]][k] : i \in 1..Len(seqops), k \in Corners }

Log(call) == hist' = Append(hist, call)

Add(o) ==
    /\ ~assembled /\ ~InDepot(o)
    /\ depot' = Append(depot, o)
    /\ Log(<<"add", o>>)
    /\ UNCHANGED <<deleted, epos, assembled, blk, vpos, pmod, pmodLive, dflt, merged, prefix, wexp, nwrites>>

Delete(o) ==
    /\ ~assembled /\ InDepot(o) /\ o \notin deleted
    /\ Len(Live) > 1                   \* keep at least one block
    /\ deleted' = deleted \cup {o}
    /\ Log(<<"delete", o>>)
    /\ UNCHANGED <<depot, epos, assembled, blk, vpos, pmod, pmodLive, dflt, merged, prefix, wexp, nwrites>>

DoAssemble ==
    /\ assembled' = TRUE
    /\ blk' = Live
    /\ vpos' = [p \in PosSet(Live) |-> p]

Assemble ==
    /\ ~assembled /\ Len(Live) > 0
    /\ DoAssemble
    /\ Log(<<"assemble">>)
    /\ UNCHANGED <<depot, deleted, epos, pmod, pmodLive, dflt, merged, prefix, wexp, nwrites>>

\* move the vertex that block i uses at corner k
MoveVertex(i, k) ==
    /\ assembled /\ i \in 1..Len(blk)
    /\ LET p == epos[blk[i]][k] IN
       /\ vpos[p] \in AllBase \cup { Moved(q) : q \in AllBase }   \* at most two moves per vertex
       /\ vpos' = [vpos EXCEPT ![p] = Moved(@)]
    /\ Log(<<"move", i, k>>)
    /\ UNCHANGED <<depot, deleted, epos, assembled, blk, pmod, pmodLive, dflt, merged, prefix, wexp, nwrites>>

\* Mesh.backport: entities take the vertex positions, then clear + assemble
BackportTarget(i) ==
    IF Variant = "shipped"
    THEN depot[i]          \* pinned commit: block i is paired with the i-th operation INCLUDING deleted ones
    ELSE blk[i]
Backport ==
    /\ assembled
    /\ LET newpos == [o \in Ops |->
                        IF \E i \in 1..Len(blk) : BackportTarget(i) = o
                        THEN LET i == CHOOSE j \in 1..Len(blk) : BackportTarget(j) = o
                             IN [k \in Corners |-> vpos[epos[blk[i]][k]]]
                        ELSE epos[o]]
       IN /\ epos' = newpos
          /\ blk' = Live
          /\ vpos' = [p \in { newpos[Live[i]][k] : i \in 1..Len(Live), k \in Corners } |-> p]
    /\ pmodLive' = IF Variant = "shipped" THEN [n \in PatchNames |-> NoMod] ELSE pmodLive
    /\ Log(<<"backport">>)
    /\ UNCHANGED <<depot, deleted, assembled, pmod, dflt, merged, prefix, wexp, nwrites>>

Clear ==
    /\ assembled
    /\ assembled' = FALSE /\ blk' = <<>> /\ vpos' = <<>>
    /\ pmodLive' = IF Variant = "shipped" THEN [n \in PatchNames |-> NoMod] ELSE pmodLive
    /\ Log(<<"clear">>)
    /\ UNCHANGED <<depot, deleted, epos, pmod, dflt, merged, prefix, wexp, nwrites>>

ModifyPatch(n, kind, withSettings) ==
    \* settings=None keeps settings given earlier
    /\ pmod' = [pmod EXCEPT ![n] = <<kind, withSettings \/ @[2]>>]
    /\ pmodLive' = [pmodLive EXCEPT ![n] = <<kind, withSettings \/ @[2]>>]
    /\ Log(<<"modify_patch", n, kind, withSettings>>)
    /\ UNCHANGED <<depot, deleted, epos, assembled, blk, vpos, dflt, merged, prefix, wexp, nwrites>>

SetDefault(kind) ==
    /\ dflt # kind
    /\ dflt' = kind
    /\ Log(<<"set_default_patch", kind>>)
    /\ UNCHANGED <<depot, deleted, epos, assembled, blk, vpos, pmod, pmodLive, merged, prefix, wexp, nwrites>>

Merge ==
    /\ ~assembled /\ merged = <<>>
    /\ merged' = << <<"inlet", "outlet">> >>
    /\ Log(<<"merge_patches", "inlet", "outlet">>)
    /\ UNCHANGED <<depot, deleted, epos, assembled, blk, vpos, pmod, pmodLive, dflt, prefix, wexp, nwrites>>

\* what the written dictionary must be equivalent to: a fresh mesh made of these operations
\* at these positions with these mesh-level settings
FreshModel ==
    LET ops == IF assembled THEN blk ELSE Live
        at(o, k) == IF assembled THEN vpos[epos[o][k]] ELSE epos[o][k]
        pm == IF Variant = "shipped" THEN pmodLive ELSE pmod
    IN [ ops |-> [i \in 1..Len(ops) |-> [op |-> ops[i], pos |-> [k \in Corners |-> at(ops[i], k)]]],
         pmod |-> [n \in { m \in PatchNames : pm[m] # NoMod } |-> pm[n]],
         dflt |-> dflt,
         merged |-> merged ]

Write ==
    /\ nwrites < MaxWrites
    /\ Len(Live) > 0
    /\ UNCHANGED <<depot, deleted, epos, pmod, pmodLive, dflt, merged, prefix>>
    /\ IF assembled THEN UNCHANGED <<assembled, blk, vpos>> ELSE DoAssemble
    /\ nwrites' = nwrites + 1
    /\ Log(<<"write">>)
    /\ wexp' = Append(wexp, [fresh |-> FreshModel', epos |-> epos])

Next ==
    /\ Len(hist) < MaxLen + Len(prefix)
    /\ \/ \E o \in Ops : Add(o) \/ Delete(o)
       \/ Assemble \/ Backport \/ Clear \/ Write \/ Merge
       \/ \E i \in 1..NOps, k \in {1, 3, 6} : MoveVertex(i, k)
       \/ \E n \in {"inlet", "walls"}, kind \in Kinds, ws \in BOOLEAN : ModifyPatch(n, kind, ws)
       \/ SetDefault("wall")

\* the explored history starts either from an empty mesh or after all operations were added
\* (optionally one of them deleted): deeper scenarios stay within the length bound
Init ==
    /\ \E n \in {0, NOps} : \E d \in {{}} \cup (IF n > 1 THEN { {o} : o \in 1..n } ELSE {}) :
         /\ depot = [i \in 1..n |-> i]
         /\ deleted = d
         /\ prefix = [i \in 1..n |-> <<"add", i>>] \o (IF d = {} THEN <<>> ELSE << <<"delete", CHOOSE o \in d : TRUE>> >>)
    /\ hist = prefix
    /\ epos = [o \in Ops |-> [k \in Corners |-> Base(o, k)]]
    /\ assembled = FALSE /\ blk = <<>> /\ vpos = <<>>
    /\ pmod = [n \in PatchNames |-> NoMod] /\ pmodLive = [n \in PatchNames |-> NoMod]
    /\ dflt = "none" /\ merged = <<>> /\ wexp = <<>> /\ nwrites = 0

Spec == Init /\ [][Next]_vars

---------------------------------------------------------------------------
\* Properties of the design (action properties over the user-visible model)

TypeOK == /\ deleted \subseteq Ops /\ assembled \in BOOLEAN
          /\ \A o \in Ops : \A k \in Corners : epos[o][k] \in Positions

\* deleting removes exactly that block: the blocks of an assembly are the live operations in order
BlocksAreLive == assembled => blk = Live

\* clear/assemble/backport without moves do not change what would be written
RoundTripStable ==
    [][ (hist' # hist /\ Head(hist'[Len(hist')]) \in {"clear", "assemble", "backport"}
            /\ (assembled => \A p \in DOMAIN vpos : vpos[p] = p))
        => ((Len(Live) > 0 /\ Len(Live') > 0) =>
             LET f == FreshModel IN LET g == FreshModel' IN f.ops = g.ops /\ f.pmod = g.pmod /\ f.dflt = g.dflt) ]_vars

\* backport moves exactly the corners of operations that own a moved vertex
BackportExact ==
    [][ (hist' # hist /\ hist'[Len(hist')] = <<"backport">>)
        => \A o \in Ops : \A k \in Corners :
             epos'[o][k] = IF o \in { blk[i] : i \in 1..Len(blk) } THEN vpos[epos[o][k]] ELSE epos[o][k] ]_vars

\* a second write without changes in between writes the same thing
WriteIdempotent ==
    [][ (hist' # hist /\ hist'[Len(hist')] = <<"write">> /\ Len(hist) > 0 /\ hist[Len(hist)] = <<"write">>)
        => FreshModel' = FreshModel ]_vars

---------------------------------------------------------------------------
\* Emission: every history ending in a write, with the fresh model the file must equal
Emit == (Len(hist) > 0 /\ hist[Len(hist)] = <<"write">> /\ (Len(hist) = MaxLen + Len(prefix) \/ nwrites = MaxWrites)) =>
            PrintT(ToJson([hist |-> hist, writes |-> wexp]))
=============================================================================
