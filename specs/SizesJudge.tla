----------------------------- MODULE SizesJudge -----------------------------
(***************************************************************************)
(* C04: trace acceptor for the cell-size distribution written for every    *)
(* edge.  A record is one execution:                                       *)
(*   blocks : 8 vertex indexes per block                                   *)
(*   seq    : [block][axis][wire] sequence of cell-size codes along the    *)
(*            wire in the wire's own direction (Hex!AxisWire order), decoded*)
(*            by the harness from the written simple/edgeGrading with the  *)
(*            wire's own length.  code = round(1e6 * ln(size))             *)
(*   req    : [block][axis] <<mode, code>> for the user's chop:            *)
(*            mode 0 none, 1 preserve start_size, 2 preserve end_size,     *)
(*            3 preserve c2c (code = round(1e6 * ln(c2c)))                 *)
(*   simple : [block] TRUE if written with simpleGrading                   *)
(* Sizes are compared with a tolerance of Tol codes (relative 1e-6 * Tol). *)
(***************************************************************************)
EXTENDS Hex, Json, IOUtils

Tol == 30

Recs == JsonDeserialize(IOEnv.VERIF_TRACE_FILE).recs
VARIABLE rec

Abs(x) == IF x < 0 THEN -x ELSE x
Close(a, b) == Abs(a - b) <= Tol
SeqClose(s, t) == Len(s) = Len(t) /\ \A k \in 1..Len(s) : Close(s[k], t[k])
Reverse(s) == [k \in 1..Len(s) |-> s[Len(s) + 1 - k]]

Nodes(r) == (1..r.nb) \X Axes
WV(r, n, i) == << r.blocks[n[1]][AxisWireTab[n[2]][i][1] + 1], r.blocks[n[1]][AxisWireTab[n[2]][i][2] + 1] >>
WSeq(r, n, i) == r.seq[n[1]][n[2] + 1][i]

\* coincident wires of different blocks <<n, i, m, j>>: listed by the harness (grouping wires by their unordered
\* vertex pair is quadratic in TLC); TLC verifies that every listed pair really is the same edge (CoSound) and that
\* the number of listed pairs is what the vertex pairs imply (CoComplete: sum over edges of k(k-1)/2)
Coincidences(r) == { << <<c[1], c[2]>>, c[3], <<c[4], c[5]>>, c[6] >> : c \in { r.co[k] : k \in 1..Len(r.co) } }
CoSound(r) == \A x \in Coincidences(r) :
                 /\ x[1][1] # x[3][1]
                 /\ LET a == WV(r, x[1], x[2]) b == WV(r, x[3], x[4]) IN a = b \/ a = <<b[2], b[1]>>
Aligned(r, x) == WV(r, x[1], x[2]) = WV(r, x[3], x[4])

\* C04: the same physical sequence of cell sizes from either block
SharedSeq(r) ==
    \A x \in Coincidences(r) :
        IF Aligned(r, x) THEN SeqClose(WSeq(r, x[1], x[2]), WSeq(r, x[3], x[4]))
        ELSE SeqClose(WSeq(r, x[1], x[2]), Reverse(WSeq(r, x[3], x[4])))

\* orientation of every node relative to the chopped node of its family: +1 same geometric direction, -1 opposite,
\* 0 not reached; propagated through coincident wires
AdjSigned(r) ==
    LET co == Coincidences(r)
        signed == { <<x[1], x[3], IF Aligned(r, x) THEN 1 ELSE -1>> : x \in co }
    IN [n \in Nodes(r) |-> { <<e[2], e[3]>> : e \in { y \in signed : y[1] = n } }
                           \cup { <<e[1], e[3]>> : e \in { y \in signed : y[2] = n } }]
RECURSIVE Orient(_, _, _)
Orient(o, adj, k) ==
    LET o2 == [n \in DOMAIN o |->
                 IF o[n] # <<0, 0, 0>> THEN o[n]
                 ELSE LET known == { e \in adj[n] : o[e[1]] # <<0, 0, 0>> } IN
                      IF known = {} THEN <<0, 0, 0>>
                      ELSE LET e == CHOOSE e \in known : TRUE IN <<o[e[1]][1], o[e[1]][2], o[e[1]][3] * e[2]>>]
    IN IF k = 0 \/ o2 = o THEN o ELSE Orient(o2, adj, k - 1)
\* o[n] = <<origin block, origin axis, sign>>
Origins(r) == { n \in Nodes(r) : r.req[n[1]][n[2] + 1][1] # 0 }
Orientation(r) == Orient([n \in Nodes(r) |-> IF n \in Origins(r) THEN <<n[1], n[2], 1>> ELSE <<0, 0, 0>>], AdjSigned(r), 3 * r.nb)

First(s) == s[1]
Last(s) == s[Len(s)]
\* C04: a preserved first/last cell size is realised on every wire of the family at the geometrically same end;
\* a preserved cell-to-cell ratio on every wire (ratio of consecutive cells)
Preserved(r) ==
    LET o == Orientation(r) IN
    \A n \in Nodes(r) : o[n] # <<0, 0, 0>> =>
        LET q == r.req[o[n][1]][o[n][2] + 1]
            mode == q[1]
            sgn == o[n][3]
        IN \A i \in 1..4 :
             LET s == WSeq(r, n, i) IN
             CASE mode = 1 -> Close(IF sgn = 1 THEN First(s) ELSE Last(s), q[2])
               [] mode = 2 -> Close(IF sgn = 1 THEN Last(s) ELSE First(s), q[2])
               [] mode = 3 -> \A k \in 1..(Len(s) - 1) : Close((s[k + 1] - s[k]) * sgn, q[2])
               [] OTHER -> TRUE

\* C04: a block written with simpleGrading really has equal specifications on its four parallel edges;
\* the harness decodes every wire with the ONE written expansion and its own length, so unequal gradings show up
\* as a violated SharedSeq / Preserved; here only the bookkeeping: simple => the four wires have the same count
SimpleCounts(r) ==
    \A b \in 1..r.nb : r.simple[b] => \A a \in Axes : \A i \in 2..4 : Len(WSeq(r, <<b, a>>, i)) = Len(WSeq(r, <<b, a>>, 1))

Judge(r) == IF ~CoSound(r) THEN {"CoSound"} ELSE
            { c \in {"SharedSeq", "Preserved", "SimpleCounts"} :
                ~ (CASE c = "SharedSeq" -> SharedSeq(r) [] c = "Preserved" -> Preserved(r) [] c = "SimpleCounts" -> SimpleCounts(r)) }

Init == LET rs == Recs IN \E i \in 1..Len(rs) : rec = rs[i]
Next == UNCHANGED rec
Spec == Init /\ [][Next]_rec
Verdict == PrintT(ToJson([id |-> rec.id, fails |-> Judge(rec)]))
=============================================================================
