------------------------------ MODULE ChopRel ------------------------------
(* The five chop quantities and the twelve relations of grading/relations.py *)
(* (shared by Chop.tla and ChopTrace.tla).                                   *)
Names == {"count", "start_size", "end_size", "c2c_expansion", "total_expansion"}

\* the relations of grading/relations.py: get_<out>__<in1>__<in2>
Relations == {
    [out |-> "start_size",      in |-> {"count", "c2c_expansion"},            name |-> "get_start_size__count__c2c_expansion"],
    [out |-> "start_size",      in |-> {"end_size", "total_expansion"},       name |-> "get_start_size__end_size__total_expansion"],
    [out |-> "end_size",        in |-> {"start_size", "total_expansion"},     name |-> "get_end_size__start_size__total_expansion"],
    [out |-> "count",           in |-> {"start_size", "c2c_expansion"},       name |-> "get_count__start_size__c2c_expansion"],
    [out |-> "count",           in |-> {"end_size", "c2c_expansion"},         name |-> "get_count__end_size__c2c_expansion"],
    [out |-> "count",           in |-> {"total_expansion", "c2c_expansion"},  name |-> "get_count__total_expansion__c2c_expansion"],
    [out |-> "count",           in |-> {"total_expansion", "start_size"},     name |-> "get_count__total_expansion__start_size"],
    [out |-> "c2c_expansion",   in |-> {"count", "start_size"},               name |-> "get_c2c_expansion__count__start_size"],
    [out |-> "c2c_expansion",   in |-> {"count", "end_size"},                 name |-> "get_c2c_expansion__count__end_size"],
    [out |-> "c2c_expansion",   in |-> {"count", "total_expansion"},          name |-> "get_c2c_expansion__count__total_expansion"],
    [out |-> "total_expansion", in |-> {"count", "c2c_expansion"},            name |-> "get_total_expansion__count__c2c_expansion"],
    [out |-> "total_expansion", in |-> {"start_size", "end_size"},            name |-> "get_total_expansion__start_size__end_size"] }

=============================================================================
