------------------------------ MODULE Grading ------------------------------
(***************************************************************************)
(* Grading of a block assembly: Mesh.grade() =                             *)
(*   BlockList.grade_blocks ; BlockList.propagate_gradings ;               *)
(*   BlockList.check_consistency                                           *)
(* as a state machine whose actions mirror the code's steps, checked       *)
(* against a DECLARATIVE statement of the outcome (families of block       *)
(* directions that must share a count).  Serves C01, C02, C04 (and C12).   *)
(*                                                                         *)
(* A block is 8 vertex ids; a node is <<block, axis>>; a node has 4 wires  *)
(* (Hex!AxisWire order).  A section is [law, cnt, inv]: which user chop    *)
(* law it realises, its cell count and whether it is reversed relative to  *)
(* the direction in which the user gave it.                                *)
(***************************************************************************)
EXTENDS Hex, Json

CONSTANTS Variant,      \* "shipped": algorithm of the pinned commit; "fixed": with the repairs of the fix: commits
          Topos,        \* topology names to enumerate
          RotChoice,    \* set of symmetry indexes (into Hex!SymSeq) blocks 2.. may use
          Rot1Choice,   \* ... block 1 may use
          ChopOpts,     \* names of chop options a node may carry
          MaxChopped,   \* at most this many chopped nodes (Cover: this many beyond one per family)
          Cover,        \* TRUE: only chop placements that put at least one chop into every family
          AllOrders,    \* TRUE: all insertion orders of the cells, FALSE: catalogue order only
          PassBound,    \* the progress bound on passes of the fix-point loop is PassBound * NB + 2
          Rounds        \* how many times the assembled mesh is graded (written): 1, or 2 = the user writes it again

VARIABLES verts,    \* [1..NB -> [1..8 -> vertex id]]         (configuration; never changes)
          uchops,   \* [Nodes -> Seq(section)] user chops      (configuration; never changes)
          co,       \* [Nodes \X 1..4 -> set of [n, i, al]] coincident wires of other blocks
          fam,      \* [Nodes -> SUBSET Nodes] declarative family of each node
          chops,    \* [Nodes -> Seq(section)] chops held by the node's wire manager
          axg,      \* [Nodes -> Seq(section)] axis-level grading of chop managers (accumulates)
          wg,       \* [Nodes -> [1..4 -> Seq(section)]] per-wire grading specification
          phase,    \* "grade" | "prop" | "check" | "done"
          pc,       \* <<block, axis>> program counter inside grade / visit
          todo,     \* blocks the current pass still has to iterate
          undef,    \* worklist of the fix-point loop
          updated,  \* progress flag of the current pass
          passes,   \* number of passes started (saturating; progress bound)
          outcome,  \* "none" | "Written" | "Undefined" | "Inconsistent"
          round     \* 1 | 2: which grade() of the same assembled mesh this is

cfgvars == <<verts, uchops, co, fam>>
vars == <<verts, uchops, co, fam, chops, axg, wg, phase, pc, todo, undef, updated, passes, outcome, round>>

---------------------------------------------------------------------------
\* Topology catalogue: unit cells in an integer lattice, in insertion order
Topo(t) ==
    CASE t = "one"     -> << <<0,0,0>> >>
      [] t = "face2"   -> << <<0,0,0>>, <<1,0,0>> >>
      [] t = "edge2"   -> << <<0,0,0>>, <<1,1,0>> >>
      [] t = "corner2" -> << <<0,0,0>>, <<1,1,1>> >>
      [] t = "row3"    -> << <<0,0,0>>, <<1,0,0>>, <<2,0,0>> >>
      [] t = "ell3"    -> << <<0,0,0>>, <<1,0,0>>, <<0,1,0>> >>
      [] t = "stair3"  -> << <<0,0,0>>, <<1,1,0>>, <<2,2,0>> >>
      [] t = "hook3"   -> << <<0,0,0>>, <<1,0,0>>, <<2,1,0>> >>
      [] t = "tee4"    -> << <<0,0,0>>, <<1,0,0>>, <<2,0,0>>, <<1,0,1>> >>
      [] t = "tee4b"   -> << <<0,0,0>>, <<2,0,0>>, <<1,0,0>>, <<1,0,1>> >>   \* the livelock model of the pinned commit
      [] t = "row4"    -> << <<0,0,0>>, <<1,0,0>>, <<2,0,0>>, <<3,0,0>> >>
      [] t = "row5"    -> << <<0,0,0>>, <<1,0,0>>, <<2,0,0>>, <<3,0,0>>, <<4,0,0>> >>
      [] t = "row5a"   -> << <<0,0,0>>, <<2,0,0>>, <<1,0,0>>, <<3,0,0>>, <<4,0,0>> >>   \* the middle of the left half before its neighbour
      [] t = "row5b"   -> << <<2,0,0>>, <<4,0,0>>, <<0,0,0>>, <<3,0,0>>, <<1,0,0>> >>   \* no block added next to the one before it
      [] t = "sq4"     -> << <<0,0,0>>, <<1,0,0>>, <<0,1,0>>, <<1,1,0>> >>
      [] t = "zig4"    -> << <<0,0,0>>, <<1,0,0>>, <<1,1,0>>, <<2,1,0>> >>

VId(p) == p[1] + 6 * p[2] + 36 * p[3]      \* (coordinates 0..5: row5 reaches x = 5)
CellVerts(cell, symIdx) ==
    [k \in 1..8 |-> LET c == XYZTab[SymTab[symIdx][k] + 1]
                    IN VId(<<cell[1] + c[1], cell[2] + c[2], cell[3] + c[3]>>)]

\* chop options: sequences of sections as the user gives them
Sec(law, cnt) == [law |-> law, cnt |-> cnt, inv |-> FALSE]
ChopOpt(o) ==
    CASE o = "A2"  -> << Sec("A", 2) >>
      [] o = "B3"  -> << Sec("B", 3) >>
      [] o = "C2"  -> << Sec("C", 2) >>          \* same count as A2, different law
      [] o = "D1E2" -> << Sec("D", 1), Sec("E", 2) >>  \* two sections, total 3
Total(q) == IF q = <<>> THEN 0 ELSE LET RECURSIVE S(_) S(i) == IF i = 0 THEN 0 ELSE q[i].cnt + S(i - 1) IN S(Len(q))
InvSeq(q) == [i \in 1..Len(q) |-> [q[Len(q) + 1 - i] EXCEPT !.inv = ~@]]

---------------------------------------------------------------------------
NB == Len(verts)
Blocks == 1..NB
Nodes == Blocks \X Axes
NodesOf(n) == (1..n) \X Axes

WireV(v, n, i) == LET w == AxisWireTab[n[2]][i] IN << v[n[1]][w[1] + 1], v[n[1]][w[2] + 1] >>

CoincOf(v, nb, n, i) ==
    { [n |-> m, i |-> j, al |-> (WireV(v, m, j) = WireV(v, n, i))] :
        <<m, j>> \in { x \in NodesOf(nb) \X (1..4) :
                         /\ x[1][1] # n[1]
                         /\ LET a == WireV(v, x[1], x[2]) b == WireV(v, n, i)
                            IN a = b \/ a = <<b[2], b[1]>> } }

\* neighbours of a node: nodes of other blocks sharing at least one wire
Neigh(n) == { c.n : c \in UNION { co[<<n, i>>] : i \in 1..4 } }
\* Axis.is_aligned: alignment of the first common wire pair (all common pairs agree in a hex complex)
AlignedTo(n, m) == (CHOOSE c \in UNION { co[<<n, i>>] : i \in 1..4 } : c.n = m).al

RECURSIVE Closure(_, _, _)
Closure(S, adj, k) == IF k = 0 THEN S
                      ELSE LET S2 == S \cup UNION { adj[s] : s \in S } IN
                           IF S2 = S THEN S ELSE Closure(S2, adj, k - 1)

---------------------------------------------------------------------------
\* Declarative outcome
Families == { fam[n] : n \in Nodes }
FamChopped(F) == { n \in F : uchops[n] # <<>> }
FamTotals(F) == { Total(uchops[n]) : n \in FamChopped(F) }
SomeUnchopped == \E F \in Families : FamChopped(F) = {}
SomeConflict == \E F \in Families : Cardinality(FamTotals(F)) > 1
FamCount(n) == CHOOSE c \in FamTotals(fam[n]) : TRUE
Expected == IF SomeUnchopped /\ SomeConflict THEN "UndefinedOrInconsistent"
            ELSE IF SomeUnchopped THEN "Undefined"
            ELSE IF SomeConflict THEN "Inconsistent"
            ELSE "Written"
\* laws present in a family (different user chops may still agree on count)
FamLaws(F) == { uchops[n] : n \in FamChopped(F) }
MultiLaw == \E F \in Families : Cardinality(FamChopped(F)) > 1

---------------------------------------------------------------------------
IsChopMgr(n) == uchops[n] # <<>>
WiresDefined(n) == \A i \in 1..4 : wg[n][i] # <<>>
NodeDefined(n) ==
    IF Variant = "fixed" /\ ~IsChopMgr(n)
    THEN chops[n] # <<>> /\ WiresDefined(n)     \* repair: a propagated direction is defined once it also holds chops
    ELSE WiresDefined(n)
BlockDefined(b) == \A a \in Axes : NodeDefined(<<b, a>>)

\* WirePropagateManager.copy_neighbours + propagate_grading for node n holding chops cs:
\* each wire takes the grading of SOME defined coincident wire (the last one in set
\* iteration order), inverted if anti-aligned; wires still undefined get the node's chops.
DefinedCo(n, i) == { c \in co[<<n, i>>] : wg[c.n][c.i] # <<>> }
NoneC == [n |-> <<0, 0>>, i |-> 0, al |-> TRUE]
Pick(n, i, c, cs) == IF c.i = 0 THEN (IF wg[n][i] # <<>> THEN wg[n][i] ELSE cs)
                     ELSE IF c.al THEN wg[c.n][c.i] ELSE InvSeq(wg[c.n][c.i])
Opts(n, i) == IF DefinedCo(n, i) = {} THEN {NoneC} ELSE DefinedCo(n, i)
PropGrade(n, cs) ==
    \E c1 \in Opts(n, 1), c2 \in Opts(n, 2), c3 \in Opts(n, 3), c4 \in Opts(n, 4) :
        wg' = [wg EXCEPT ![n] = <<Pick(n, 1, c1, cs), Pick(n, 2, c2, cs), Pick(n, 3, c3, cs), Pick(n, 4, c4, cs)>>]

\* WireChopManager.grade: the axis grading and every wire get the chops appended - to what is left from the previous
\* grade() at the pinned commit ("shipped"), to empty gradings since the repair ("fixed")
ChopGrade(n) ==
    IF Variant = "fixed"
    THEN /\ wg' = [wg EXCEPT ![n] = [i \in 1..4 |-> chops[n]]]
         /\ axg' = [axg EXCEPT ![n] = chops[n]]
    ELSE /\ wg' = [wg EXCEPT ![n] = [i \in 1..4 |-> wg[n][i] \o chops[n]]]
         /\ axg' = [axg EXCEPT ![n] = axg[n] \o chops[n]]

NextPc(p) == IF p[2] < 2 THEN <<p[1], p[2] + 1>> ELSE <<p[1] + 1, 0>>

\* BlockList.grade_blocks: blocks in list order, axes 0,1,2
GradeStep ==
    /\ phase = "grade"
    /\ IF IsChopMgr(pc) THEN ChopGrade(pc) ELSE PropGrade(pc, chops[pc]) /\ UNCHANGED axg
    /\ IF NextPc(pc)[1] > NB
       THEN /\ phase' = "prop" /\ pc' = <<0, 0>> /\ todo' = Blocks
       ELSE /\ phase' = phase /\ pc' = NextPc(pc) /\ todo' = todo
    /\ UNCHANGED <<cfgvars, chops, undef, updated, passes, outcome, round>>

\* one iteration of `for i in undefined_blocks`: pick a block (set iteration order is free)
StartPass == /\ todo' = undef /\ updated' = FALSE
             /\ passes' = IF passes > PassBound * NB + 2 THEN passes ELSE passes + 1
VisitBlock(b) ==
    /\ phase = "prop" /\ pc[1] = 0 /\ b \in todo
    /\ IF BlockDefined(b)
       THEN \* undefined_blocks.remove(i); updated = True; break
            /\ undef' = undef \ {b}
            /\ IF undef' = {}
               THEN phase' = "check" /\ todo' = {} /\ updated' = TRUE /\ passes' = passes
               ELSE phase' = phase /\ todo' = undef' /\ updated' = FALSE
                    /\ passes' = IF passes > PassBound * NB + 2 THEN passes ELSE passes + 1
            /\ pc' = pc
       ELSE \* block.copy_grading(): axes 0,1,2 one after another
            /\ pc' = <<b, 0>> /\ todo' = todo \ {b}
            /\ UNCHANGED <<undef, updated, passes, phase>>
    /\ UNCHANGED <<cfgvars, chops, axg, wg, outcome, round>>

\* Axis.copy_grading for node pc inside Block.copy_grading
CopyAxis ==
    /\ phase = "prop" /\ pc[1] # 0
    /\ LET n == pc
           defn == { m \in Neigh(n) : NodeDefined(m) }
       IN IF NodeDefined(n) \/ defn = {}
          THEN UNCHANGED <<chops, wg, updated>>
          ELSE \E m \in defn :     \* the first defined neighbour in set iteration order
                 LET cs == chops[n] \o (IF AlignedTo(n, m) THEN chops[m] ELSE InvSeq(chops[m])) IN
                 /\ chops' = [chops EXCEPT ![n] = cs]
                 /\ IF IsChopMgr(n) THEN FALSE ELSE PropGrade(n, cs)
                 /\ updated' = TRUE
    /\ pc' = IF pc[2] < 2 THEN <<pc[1], pc[2] + 1>> ELSE <<0, 0>>
    /\ UNCHANGED <<cfgvars, axg, todo, undef, passes, phase, outcome, round>>

\* end of the for loop
EndPass ==
    /\ phase = "prop" /\ pc[1] = 0 /\ todo = {}
    /\ IF updated
       THEN /\ StartPass /\ UNCHANGED <<phase, outcome>>
       ELSE /\ phase' = "done" /\ outcome' = "Undefined" /\ UNCHANGED <<todo, updated, passes>>
    /\ UNCHANGED <<cfgvars, chops, axg, wg, undef, pc, round>>

Count(q) == Total(q)
WrittenCount(n) == IF IsChopMgr(n) THEN Count(axg[n]) ELSE Count(wg[n][1])
NodeConsistent(n) == \A i \in 2..4 : Count(wg[n][i]) = Count(wg[n][1])
CoConsistent(n) == \A i \in 1..4 : \A c \in co[<<n, i>>] : Count(wg[c.n][c.i]) = Count(wg[n][i])
Check ==
    /\ phase = "check"
    /\ phase' = "done"
    /\ outcome' = IF \A n \in Nodes : NodeConsistent(n) /\ (Variant = "fixed" => CoConsistent(n))
                  THEN "Written" ELSE "Inconsistent"
    /\ UNCHANGED <<cfgvars, chops, axg, wg, pc, todo, undef, updated, passes, round>>

\* the user writes (grades) the same assembled mesh once more - after a written file, or after an error that was caught
\* (retry, another path).  BlockList.grade_blocks since the repair of the second write: before the first block is graded
\* again, every propagated direction forgets what the earlier grade() copied from its neighbours - chops and wire gradings,
\* calculated with the lengths of that time (resetting each direction only when its own turn came let a block copy what its
\* neighbour still held) - and the user-chopped directions empty their gradings as well (left defined until their own turn,
\* they were copied, inverted, by a neighbour and handed on around an edge shared by three blocks): after the reset nothing
\* is defined, as in a freshly assembled mesh.
\* At the pinned commit ("shipped") everything is left as it was.  OutcomeOK holds for the second attempt as for the first.
Regrade ==
    /\ phase = "done" /\ round < Rounds
    /\ round' = round + 1
    /\ phase' = "grade" /\ pc' = <<1, 0>> /\ todo' = {} /\ undef' = Blocks
    /\ updated' = FALSE /\ passes' = 0 /\ outcome' = "none"
    /\ IF Variant = "fixed"
       THEN /\ chops' = uchops
            /\ wg' = [n \in Nodes |-> [i \in 1..4 |-> <<>>]]
            /\ axg' = [n \in Nodes |-> <<>>]
       ELSE UNCHANGED <<chops, wg, axg>>
    /\ UNCHANGED cfgvars

Next == GradeStep \/ (\E b \in Blocks : VisitBlock(b)) \/ CopyAxis \/ EndPass \/ Check \/ Regrade
Done == phase = "done" /\ UNCHANGED vars

---------------------------------------------------------------------------
\* Configurations
OrdersOf(n) == IF AllOrders THEN { p \in [1..n -> 1..n] : \A i, j \in 1..n : i # j => p[i] # p[j] }
               ELSE { [i \in 1..n |-> i] }
ChopSeqOf(o) == IF o = "none" THEN <<>> ELSE ChopOpt(o)

\* (TLC re-evaluates LET definitions at every use; binding through a singleton set evaluates once)
InitCfg(t, ord, rots) ==
    \E cells \in {Topo(t)} :
    \E v \in {[b \in 1..Len(cells) |-> CellVerts(cells[ord[b]], rots[b])]} :
    \E cof \in {[x \in NodesOf(Len(cells)) \X (1..4) |-> CoincOf(v, Len(cells), x[1], x[2])]} :
    \E adj \in {[m \in NodesOf(Len(cells)) |-> { c.n : c \in UNION { cof[<<m, i>>] : i \in 1..4 } }]} :
       /\ verts = v
       /\ co = cof
       /\ fam = [m \in NodesOf(Len(cells)) |-> Closure({m}, adj, 3 * Len(cells))]

\* chop placements: any set of at most MaxChopped nodes, or (Cover) one node of every family
\* plus at most MaxChopped further nodes
RECURSIVE PickOne(_)
PickOne(Fs) == IF Fs = {} THEN {{}}
               ELSE LET F == CHOOSE F \in Fs : TRUE IN { {x} \cup R : x \in F, R \in PickOne(Fs \ {F}) }
SmallSubsets(S, k) == { T \in SUBSET S : Cardinality(T) <= k }
ChoppedSets(n) ==
    IF Cover THEN { R \cup E : R \in PickOne({ fam[m] : m \in NodesOf(n) }), E \in SmallSubsets(NodesOf(n), MaxChopped) }
    ELSE SmallSubsets(NodesOf(n), MaxChopped)

Init ==
    /\ \E t \in Topos :
         LET n == Len(Topo(t)) IN
         \E ord \in OrdersOf(n) :
         \E r1 \in Rot1Choice :
         \E rr \in [2..n -> RotChoice] :
            /\ InitCfg(t, ord, [b \in 1..n |-> IF b = 1 THEN r1 ELSE rr[b]])
            /\ \E chopped \in ChoppedSets(n) :
               \E opt \in [chopped -> ChopOpts] :
                  uchops = [m \in NodesOf(n) |-> IF m \in chopped THEN ChopOpt(opt[m]) ELSE <<>>]
    /\ chops = uchops
    /\ axg = [m \in Nodes |-> <<>>]
    /\ wg = [m \in Nodes |-> [i \in 1..4 |-> <<>>]]
    /\ phase = "grade" /\ pc = <<1, 0>> /\ todo = {} /\ undef = Blocks
    /\ updated = FALSE /\ passes = 0 /\ outcome = "none" /\ round = 1

Spec == Init /\ [][Next]_vars /\ WF_vars(Next)
\* configurations only (for emission to the replay harness)
GenSpec == Init /\ [][UNCHANGED vars]_vars
ASSUME (RotChoice \cup Rot1Choice) \subseteq RotIdx

---------------------------------------------------------------------------
\* Properties

TypeOK == /\ phase \in {"grade", "prop", "check", "done"}
          /\ outcome \in {"none", "Written", "Undefined", "Inconsistent"}
          /\ undef \subseteq Blocks /\ todo \subseteq Blocks /\ round \in 1..Rounds

\* C02: progress bound (termination of the fix-point loop)
PassBoundOK == passes <= PassBound * NB + 2
Terminates == <>(phase = "done" /\ round = Rounds)

\* C01/C02: the outcome is the declarative one
OutcomeOK ==
    phase = "done" =>
        CASE Expected = "Written" -> outcome = "Written"
          [] Expected = "Undefined" -> outcome = "Undefined"
          [] Expected = "Inconsistent" -> outcome = "Inconsistent"
          [] OTHER -> outcome \in {"Undefined", "Inconsistent"}

\* C01: when written, shared edges agree and the four parallel edges carry the written count
WrittenAgree ==
    (phase = "done" /\ outcome = "Written") =>
        /\ \A n \in Nodes : \A i \in 1..4 : Count(wg[n][i]) = WrittenCount(n)
        /\ \A n \in Nodes : CoConsistent(n)

\* C02: completeness - every direction of a family gets the family's count
Complete ==
    (phase = "done" /\ outcome = "Written") => \A n \in Nodes : WrittenCount(n) = FamCount(n)

\* C04 (discrete part): coincident wires carry the same section list (aligned) or the reversed,
\* inverted one (anti-aligned), whenever a family has a single law
SharedSame ==
    (phase = "done" /\ outcome = "Written" /\ ~MultiLaw) =>
        \A n \in Nodes : \A i \in 1..4 : \A c \in co[<<n, i>>] :
            wg[c.n][c.i] = IF c.al THEN wg[n][i] ELSE InvSeq(wg[n][i])

\* no partial result: nothing counts as written unless the check phase said so
NoPartial == outcome = "Written" => phase = "done"

---------------------------------------------------------------------------
\* Emission of configurations (+ expected outcome) for replay into the implementation
CfgRecord ==
    [ nb |-> NB,
      verts |-> verts,
      chops |-> [b \in Blocks |-> [a \in 1..3 |-> [s \in 1..Len(uchops[<<b, a - 1>>]) |->
                    [law |-> uchops[<<b, a - 1>>][s].law, cnt |-> uchops[<<b, a - 1>>][s].cnt]]]],
      expected |-> Expected,
      multilaw |-> MultiLaw,
      counts |-> IF Expected = "Written" THEN [b \in Blocks |-> [a \in 1..3 |-> FamCount(<<b, a - 1>>)]] ELSE <<>>,
      nfam |-> Cardinality(Families), rounds |-> Rounds,
      \* do two user-chopped directions meet on one edge? (then the user gave that edge two laws)
      clash |-> \E n \in Nodes : uchops[n] # <<>> /\ \E i \in 1..4 : \E c \in co[<<n, i>>] : uchops[c.n] # <<>> ]
EmitCfg == (phase = "grade" /\ pc = <<1, 0>> /\ round = 1) => PrintT(ToJson(CfgRecord))
InitOnly == phase = "grade" /\ pc = <<1, 0>> /\ round = 1
=============================================================================
