SPECIFICATION JSpec
CONSTANTS
  MaxX = 1
  MaxY = 1
  MaxZ = 1
CONSTRAINT JEmit
CHECK_DEADLOCK FALSE
