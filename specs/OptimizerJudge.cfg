SPECIFICATION JSpec
CONSTRAINT JEmit
CHECK_DEADLOCK FALSE
