-------------------------------- MODULE Chop --------------------------------
(***************************************************************************)
(* C03: the geometric-progression law of a chop, on EXACT instances, and   *)
(* the closure loop of Chop.calculate as a state machine.                  *)
(*                                                                         *)
(* Instance (a, p, q, n): n cells of sizes a * p^i * q^(n-1-i), i < n.     *)
(*   length            L     = sum of the sizes            (integer)       *)
(*   start_size        s0    = a * q^(n-1)                 (integer)       *)
(*   end_size          s_n-1 = a * p^(n-1)                 (integer)       *)
(*   c2c_expansion     p / q                               (rational)      *)
(*   total_expansion   p^(n-1) / q^(n-1)                   (rational)      *)
(* Off-boundary twins: the same cells on an edge that is shorter by        *)
(* theta/4 of the last cell (theta = 1,2,3; of the first cell when sizes   *)
(* are counted from the end): for these the count derived                  *)
(* from (size, ratio) is n without any tie; on the exact length it may     *)
(* legitimately be n or n+1 (count = floor(x)+1 with x an exact integer).  *)
(*                                                                         *)
(* Closure: `known` is the set of the five quantities already resolved;    *)
(* one action per relation of grading/relations.py (same names).           *)
(***************************************************************************)
EXTENDS Naturals, Integers, Sequences, FiniteSets, TLC, Json, ChopRel

CONSTANTS MaxA, MaxP, MaxN

Pairs == { S \in SUBSET Names : Cardinality(S) = 2 }

RECURSIVE Pow(_, _)
Pow(b, e) == IF e = 0 THEN 1 ELSE b * Pow(b, e - 1)
RECURSIVE GCD(_, _)
GCD(x, y) == IF y = 0 THEN x ELSE GCD(y, x % y)

Instances == { i \in [a : 1..MaxA, p : 1..MaxP, q : 1..MaxP, n : 1..MaxN] : GCD(i.p, i.q) = 1 }

Size(i, k) == i.a * Pow(i.p, k) * Pow(i.q, i.n - 1 - k)
RECURSIVE SumTo(_, _)
SumTo(i, k) == IF k = 0 THEN 0 ELSE Size(i, k - 1) + SumTo(i, k - 1)     \* first k cells
Length(i) == SumTo(i, i.n)
Start(i) == Size(i, 0)
End(i) == Size(i, i.n - 1)

VARIABLES inst, known, steps, given
vars == <<inst, known, steps, given>>

Init == /\ inst \in Instances
        /\ given \in Pairs
        /\ known = given
        /\ steps = 0

Apply(rel) == /\ rel.in \subseteq known
              /\ rel.out \notin known
              /\ known' = known \cup {rel.out}
              /\ steps' = steps + 1
              /\ UNCHANGED <<inst, given>>

Next == \E rel \in Relations : Apply(rel)
Spec == Init /\ [][Next]_vars

\* every pair of inputs is supported: the closure never gets stuck before all five are known,
\* and needs at most three relation applications (the loop allows 12 passes)
ClosureComplete == (\A rel \in Relations : ~(rel.in \subseteq known /\ rel.out \notin known)) => known = Names
ClosureShort == steps <= 3

\* the instance obeys the closed forms the relations use (exact integer identities)
SumLaw == Length(inst) * (inst.q - inst.p) = inst.a * (Pow(inst.q, inst.n) - Pow(inst.p, inst.n))
EndLaw == End(inst) * Pow(inst.q, inst.n - 1) = Start(inst) * Pow(inst.p, inst.n - 1)
\* off-boundary twins really lie strictly between n-1 and n cells of the progression
TwinLaw == \A th \in 1..3 : /\ 4 * Length(inst) - th * End(inst) > 4 * SumTo(inst, inst.n - 1)
                             /\ 4 * Length(inst) - th * End(inst) < 4 * Length(inst)
                             \* counted from the end, the last n-1 cells are all but the first
                             /\ 4 * Length(inst) - th * Start(inst) > 4 * (Length(inst) - Start(inst))

\* reversal (Chop.invert / Grading.inverted): the same cells read from the other end are the instance with p and q
\* swapped - same count and length, first and last size exchanged, both ratios reciprocal - whichever two of the five
\* quantities the user gave
Rev(i) == [a |-> i.a, p |-> i.q, q |-> i.p, n |-> i.n]
ReverseLaw == LET r == Rev(inst) IN
              /\ r \in Instances
              /\ \A k \in 0..(inst.n - 1) : Size(r, k) = Size(inst, inst.n - 1 - k)
              /\ Length(r) = Length(inst) /\ Start(r) = End(inst) /\ End(r) = Start(inst)
              /\ Rev(r) = inst

Record == [ a |-> inst.a, p |-> inst.p, q |-> inst.q, n |-> inst.n,
            length |-> Length(inst), start |-> Start(inst), end |-> End(inst),
            c2c |-> <<inst.p, inst.q>>,
            total |-> <<Pow(inst.p, inst.n - 1), Pow(inst.q, inst.n - 1)>>,
            twins |-> [th \in 1..3 |-> <<4 * Length(inst) - th * End(inst), 4>>],      \* for sizes counted from the start
            twinsE |-> [th \in 1..3 |-> <<4 * Length(inst) - th * Start(inst), 4>>],   \* for sizes counted from the end
            prev |-> SumTo(inst, inst.n - 1) ]
Emit == (steps = 0 /\ given = {"count", "start_size"}) => PrintT(ToJson(Record))
=============================================================================
