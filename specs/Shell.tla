-------------------------------- MODULE Shell --------------------------------
(***************************************************************************)
(* Shell: a shape made by offsetting a list of faces.  The library keeps a *)
(* store of shared points (SharedPointStore): faces are entered one at a   *)
(* time, corner by corner (AwareFaceStore.point_store); a corner either    *)
(* finds the store entry at its position or appends a new one, and the     *)
(* entry remembers its owners.  A point is offset along the sum of the     *)
(* normals of its owners, so that two lofts whose faces share a corner     *)
(* share the offset corner too (C11: adjacent blocks share the vertices    *)
(* along their common faces).                                              *)
(*                                                                         *)
(* The state machine enters the corners in the library's order; the        *)
(* invariants say what the shape relies on:                                *)
(*   Unique    no position twice in the store                              *)
(*   Owners    an entry is owned by exactly the corners entered so far     *)
(*             that lie at its position, each once                         *)
(*   Stable    an entry keeps its index and position (action property)     *)
(*   Conformal (at the end) corners of different faces at one position     *)
(*             get the same offset direction                               *)
(* Faces are outer sides of two unit cubes side by side (ten unit quads,   *)
(* coplanar neighbours, edge neighbours and corner neighbours), numbered   *)
(* from a corner that depends on the face, in every order of up to MaxF of *)
(* them.  TLC checks the invariants and emits every finished store with    *)
(* the integer direction of every corner; the harness builds the faces     *)
(* under a similarity, makes the real Shell and compares every loft.       *)
(***************************************************************************)
EXTENDS Integers, Sequences, FiniteSets, Json, TLC

CONSTANTS MaxF          \* faces per shell (1..MaxF)

Add(a, b) == << a[1] + b[1], a[2] + b[2], a[3] + b[3] >>
Zero == << 0, 0, 0 >>
Unit(k, s) == [i \in 1..3 |-> IF i = k THEN s ELSE 0]
Shift(s, n) == [i \in 1..4 |-> s[((i - 1 + n) % 4) + 1]]
Rev4(s) == << s[1], s[4], s[3], s[2] >>

\* the side of cell c (its low corner) across axis k, at the low (s = -1) or high (s = 1) end, numbered so that the
\* right-hand normal is s * e_k
Side(c, k, s) ==
    LET a == (k % 3) + 1
        b == ((k + 1) % 3) + 1
        o == IF s = 1 THEN Add(c, Unit(k, 1)) ELSE c
        cyc == << o, Add(o, Unit(a, 1)), Add(Add(o, Unit(a, 1)), Unit(b, 1)), Add(o, Unit(b, 1)) >>
    IN [ pts |-> IF s = 1 THEN cyc ELSE Rev4(cyc), n |-> Unit(k, s) ]

Cells == { << 0, 0, 0 >>, << 1, 0, 0 >> }
Outer == { f \in { Side(c, k, s) : c \in Cells, k \in 1..3, s \in {-1, 1} } :
             \* not the side between the two cells
             ~ (f.pts[1][1] = 1 /\ f.pts[2][1] = 1 /\ f.pts[3][1] = 1 /\ f.pts[4][1] = 1) }
ASSUME Cardinality(Outer) = 10

\* the catalogue: every outer side, numbered from a corner that depends on where it is
Code(f) == f.pts[1][1] + 3 * f.pts[1][2] + 5 * f.pts[1][3] + f.n[1] + 2 * f.n[2] + 3 * f.n[3] + 6
Catalogue == { [ pts |-> Shift(f.pts, Code(f) % 4), n |-> f.n ] : f \in Outer }
ASSUME Cardinality(Catalogue) = 10

Range(f) == { f[i] : i \in DOMAIN f }
Injective(s) == \A i, j \in DOMAIN s : s[i] = s[j] => i = j

VARIABLES faces,     \* the list handed to Shell
          store,     \* sequence of [pos, owners]; owners = sequence of <<face index, corner>>
          at         \* corners entered so far (0 .. 4 * Len(faces))
vars == << faces, store, at >>

FaceOf(i) == ((i - 1) \div 4) + 1
CornerOf(i) == ((i - 1) % 4) + 1
PosOf(i) == faces[FaceOf(i)].pts[CornerOf(i)]

Init == /\ \E n \in 1..MaxF : faces \in { s \in [1..n -> Catalogue] : Injective(s) }
        /\ store = << >>
        /\ at = 0

\* SharedPointStore.add_from_face
Enter == /\ at < 4 * Len(faces)
         /\ LET i == at + 1
                p == PosOf(i)
                hit == { j \in 1..Len(store) : store[j].pos = p }
            IN IF hit = {}
               THEN store' = Append(store, [ pos |-> p, owners |-> << << FaceOf(i), CornerOf(i) >> >> ])
               ELSE LET j == CHOOSE j \in hit : TRUE
                    IN store' = [store EXCEPT ![j].owners = Append(@, << FaceOf(i), CornerOf(i) >>)]
         /\ at' = at + 1
         /\ UNCHANGED faces
Spec == Init /\ [][Enter]_vars

Done == at = 4 * Len(faces)

Unique == \A i, j \in 1..Len(store) : store[i].pos = store[j].pos => i = j
Owners == \A j \in 1..Len(store) :
             /\ Injective(store[j].owners)
             /\ Range(store[j].owners) = { << FaceOf(i), CornerOf(i) >> : i \in { i \in 1..at : PosOf(i) = store[j].pos } }
Covers == { store[j].pos : j \in 1..Len(store) } = { PosOf(i) : i \in 1..at }
Stable == [][ \A j \in 1..Len(store) : store'[j].pos = store[j].pos /\ Len(store'[j].owners) >= Len(store[j].owners) ]_vars

\* the direction a corner is offset along: the sum of the normals of the faces that own its store entry
RECURSIVE SumN(_)
SumN(os) == IF os = << >> THEN Zero ELSE Add(faces[Head(os)[1]].n, SumN(Tail(os)))
Entry(p) == CHOOSE j \in 1..Len(store) : store[j].pos = p
Dir(p) == SumN(store[Entry(p)].owners)
Shared(p) == Len(store[Entry(p)].owners) > 1
Solitary(f) == \A k \in 1..4 : ~ Shared(faces[f].pts[k])

Conformal == Done => \A a, b \in 1..(4 * Len(faces)) : PosOf(a) = PosOf(b) => Dir(PosOf(a)) = Dir(PosOf(b))
\* outer sides of a convex body: the direction never vanishes and has a positive component along every owner's normal
Outward == Done => \A i \in 1..(4 * Len(faces)) :
              LET d == Dir(PosOf(i)) n == faces[FaceOf(i)].n IN d[1] * n[1] + d[2] * n[2] + d[3] * n[3] > 0

Emit == Done => PrintT(ToJson([ shell |-> [f \in 1..Len(faces) |-> faces[f].pts],
                                normals |-> [f \in 1..Len(faces) |-> faces[f].n],
                                dirs |-> [f \in 1..Len(faces) |-> [k \in 1..4 |-> Dir(faces[f].pts[k])]],
                                npoints |-> Len(store),
                                disconnected |-> \E f \in 1..Len(faces) : Solitary(f) ]))
=============================================================================
