SPECIFICATION Spec
CONSTRAINT Emit
CHECK_DEADLOCK FALSE
