--------------------------------- MODULE Find ---------------------------------
(***************************************************************************)
(* C18: finders are exact; viewpoint re-orientation canonicalises.         *)
(*                                                                         *)
(* Finders: the mesh vertices are the points of an integer lattice box     *)
(* (coordinates doubled so that half-lattice centres are integers); a      *)
(* sphere query has an integer centre and a squared radius k + 1/2 for an  *)
(* integer k (stored as 2k+1 over 2), so no vertex is on the sphere; a     *)
(* plane query has a lattice point and an integer normal.  The expected    *)
(* vertex sets are computed exactly.                                       *)
(*                                                                         *)
(* Re-orientation: an observer direction o and a ceiling direction c       *)
(* (signed coordinate axes, perpendicular) define x = c x o (to the right),*)
(* y = -o (front to back), z = c (bottom to top).  Whatever numbering the  *)
(* block had, new corner k must be the physical corner whose position in   *)
(* that frame is Hex!XYZ(k).                                               *)
(***************************************************************************)
EXTENDS Lattice, Hex, Json

CONSTANTS NX, NY, NZ     \* lattice cells; vertices (2i, 2j, 2l)

Verts == { <<2 * i, 2 * j, 2 * l>> : i \in 0..NX, j \in 0..NY, l \in 0..NZ }
D2(p, q) == Norm2(Sub(p, q))
Centres == { <<i, j, l>> : i \in 0..(2 * NX), j \in 0..(2 * NY), l \in {0, 1, 2} }
Radii2x2 == { 3, 9, 17, 25 }          \* twice the squared radius (odd => no vertex at the boundary)
InSphere(c, r22) == { v \in Verts : 2 * D2(v, c) < r22 }
Normals == { <<1, 0, 0>>, <<0, 0, 1>>, <<1, 1, 0>>, <<1, -1, 0>>, <<1, 1, 1>>, <<1, 2, 0>>, <<2, -1, 2>> }
OnPlane(p, n) == { v \in Verts : Dot(Sub(v, p), n) = 0 }

VARIABLES q
Init == \/ \E c \in Centres, r \in Radii2x2 : q = [kind |-> "sphere", c |-> c, r22 |-> r, n |-> <<0, 0, 0>>, found |-> InSphere(c, r)]
        \/ \E p \in Verts, n \in Normals : q = [kind |-> "plane", c |-> p, r22 |-> 0, n |-> n, found |-> OnPlane(p, n)]
Next == UNCHANGED q
Spec == Init /\ [][Next]_q
\* sanity: a sphere that contains its centre vertex contains at least that vertex; a plane contains its own point
QueryOK == /\ (q.kind = "sphere" /\ q.c \in Verts) => q.c \in q.found
           /\ q.kind = "plane" => q.c \in q.found
\* With the patches between the first and the second column of cells merged face to face (mergePatchPairs) every lattice
\* point of the plane x = 2 carries TWO vertices (master side, slave side): a query finds both or neither
Interface == { v \in Verts : v[1] = 2 }
Emit == PrintT(ToJson([q EXCEPT !.found = { v : v \in q.found }] @@ [twice |-> q.found \cap Interface]))

\* ---- viewpoint frames ---------------------------------------------------------
Axes6 == { <<1, 0, 0>>, <<-1, 0, 0>>, <<0, 1, 0>>, <<0, -1, 0>>, <<0, 0, 1>>, <<0, 0, -1>> }
ViewFrames == { f \in Axes6 \X Axes6 : Dot(f[1], f[2]) = 0 }
\* coordinate (0/1) of reference corner r along a signed axis d
Along(r, d) == LET i == CHOOSE j \in 1..3 : d[j] # 0 IN IF d[i] = 1 THEN XYZ(r)[i] ELSE 1 - XYZ(r)[i]
Expected(f) == LET o == f[1] c == f[2] xd == Cross(c, o) yd == Neg(o) zd == c IN
               [k \in 1..8 |-> CHOOSE r \in Corners : << Along(r, xd), Along(r, yd), Along(r, zd) >> = XYZ(k - 1)]
ASSUME Cardinality(ViewFrames) = 24
\* the canonical numbering is always a rotation of the reference numbering (right-handed)
ASSUME \A f \in ViewFrames : \E n \in RotIdx : \A k \in 1..8 : SymTab[n][k] = Expected(f)[k]
\* ---- viewpoints in general position ----------------------------------------------
\* The observer looks along o' = 3 o + a x + b c (the block is turned with respect to the line of sight) and the ceiling
\* point is at c' = 2 c + t o' + s x (t: pulled towards / away from the observer).  The front side is the one whose outward
\* normal is best aligned with o'; the top side is the remaining one best aligned with the part of c' perpendicular to
\* the line of sight, Perp = c' |o'|^2 - (c'.o') o' (integers).  Only viewpoints that decide both by a clear margin
\* (best >= 1.5 x second best) are used, so that a mild distortion of the block cannot change the answer.
Best(S, v) == CHOOSE n \in S : \A m \in S : Dot(m, v) <= Dot(n, v)
Clear(S, v) == LET n == Best(S, v) IN \A m \in S \ {n} : 2 * Dot(n, v) >= 3 * Dot(m, v) /\ Dot(n, v) > 0
Perp(o2, c2) == Sub(Scale(Dot(o2, o2), c2), Scale(Dot(c2, o2), o2))
Oblique == { g \in [base : ViewFrames, a : {-1, 0, 1}, b : {-1, 0, 1}, t : {-2, -1, 0, 1, 2}, s : {-1, 0, 1}] :
             g.a # 0 \/ g.b # 0 \/ g.t # 0 \/ g.s # 0 }
ObO(g) == LET o == g.base[1] c == g.base[2] x == Cross(c, o) IN Add(Scale(3, o), Add(Scale(g.a, x), Scale(g.b, c)))
ObC(g) == LET o == g.base[1] c == g.base[2] x == Cross(c, o) IN Add(Scale(2, c), Add(Scale(g.t, ObO(g)), Scale(g.s, x)))
ObFront(g) == Best(Axes6, ObO(g))
ObRest(g) == Axes6 \ {ObFront(g), Neg(ObFront(g))}
ObTop(g) == Best(ObRest(g), Perp(ObO(g), ObC(g)))
ObClear(g) == Clear(Axes6, ObO(g)) /\ Clear(ObRest(g), Perp(ObO(g), ObC(g)))
ObliqueClear == { g \in Oblique : ObClear(g) }
\* with these margins the viewpoint never changes which side is in front or on top ...
ASSUME \A g \in ObliqueClear : ObFront(g) = g.base[1] /\ ObTop(g) = g.base[2]
\* ... but the set is discriminating: without the perpendicular part (or with the correction added instead of
\* subtracted) a different side would be taken for the top in some of them
PerpWrong(o2, c2) == Add(Scale(Dot(o2, o2), c2), Scale(Dot(c2, o2), o2))
ASSUME \E g \in ObliqueClear : Best(ObRest(g), PerpWrong(ObO(g), ObC(g))) # ObTop(g)
ASSUME \E g \in ObliqueClear : \E m \in ObRest(g) \ {ObTop(g)} : Dot(m, ObC(g)) >= Dot(ObTop(g), ObC(g))
ASSUME \A g \in ObliqueClear : << ObFront(g), ObTop(g) >> \in ViewFrames
ViewRecord == [ oblique |-> { [o |-> ObO(g), c |-> ObC(g), expected |-> Expected(<< ObFront(g), ObTop(g) >>),
                               turned |-> (g.a # 0 \/ g.b # 0), pulled |-> g.t,
                               wrongsign |-> (Best(ObRest(g), PerpWrong(ObO(g), ObC(g))) # ObTop(g))] : g \in ObliqueClear },
                frames |-> { [o |-> f[1], c |-> f[2], expected |-> Expected(f)] : f \in ViewFrames },
                numberings |-> [n \in 1..48 |-> [k \in 1..8 |-> SymTab[n][k]]] ]
ViewEmit == PrintT(ToJson(ViewRecord))
=============================================================================
