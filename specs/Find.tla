--------------------------------- MODULE Find ---------------------------------
(***************************************************************************)
(* C18: finders are exact; viewpoint re-orientation canonicalises.         *)
(*                                                                         *)
(* Finders: the mesh vertices are the points of an integer lattice box     *)
(* (coordinates doubled so that half-lattice centres are integers); a      *)
(* sphere query has an integer centre and a squared radius k + 1/2 for an  *)
(* integer k (stored as 2k+1 over 2), so no vertex is on the sphere; a     *)
(* plane query has a lattice point and an integer normal.  The expected    *)
(* vertex sets are computed exactly.                                       *)
(*                                                                         *)
(* Re-orientation: an observer direction o and a ceiling direction c       *)
(* (signed coordinate axes, perpendicular) define x = c x o (to the right),*)
(* y = -o (front to back), z = c (bottom to top).  Whatever numbering the  *)
(* block had, new corner k must be the physical corner whose position in   *)
(* that frame is Hex!XYZ(k).                                               *)
(***************************************************************************)
EXTENDS Lattice, Hex, Json

CONSTANTS NX, NY, NZ     \* lattice cells; vertices (2i, 2j, 2l)

Verts == { <<2 * i, 2 * j, 2 * l>> : i \in 0..NX, j \in 0..NY, l \in 0..NZ }
D2(p, q) == Norm2(Sub(p, q))
Centres == { <<i, j, l>> : i \in 0..(2 * NX), j \in 0..(2 * NY), l \in {0, 1, 2} }
Radii2x2 == { 3, 9, 17, 25 }          \* twice the squared radius (odd => no vertex at the boundary)
InSphere(c, r22) == { v \in Verts : 2 * D2(v, c) < r22 }
Normals == { <<1, 0, 0>>, <<0, 0, 1>>, <<1, 1, 0>>, <<1, -1, 0>>, <<1, 1, 1>>, <<1, 2, 0>>, <<2, -1, 2>> }
OnPlane(p, n) == { v \in Verts : Dot(Sub(v, p), n) = 0 }

VARIABLES q
Init == \/ \E c \in Centres, r \in Radii2x2 : q = [kind |-> "sphere", c |-> c, r22 |-> r, n |-> <<0, 0, 0>>, found |-> InSphere(c, r)]
        \/ \E p \in Verts, n \in Normals : q = [kind |-> "plane", c |-> p, r22 |-> 0, n |-> n, found |-> OnPlane(p, n)]
Next == UNCHANGED q
Spec == Init /\ [][Next]_q
\* sanity: a sphere that contains its centre vertex contains at least that vertex; a plane contains its own point
QueryOK == /\ (q.kind = "sphere" /\ q.c \in Verts) => q.c \in q.found
           /\ q.kind = "plane" => q.c \in q.found
Emit == PrintT(ToJson([q EXCEPT !.found = { v : v \in q.found }]))

\* ---- viewpoint frames ---------------------------------------------------------
Axes6 == { <<1, 0, 0>>, <<-1, 0, 0>>, <<0, 1, 0>>, <<0, -1, 0>>, <<0, 0, 1>>, <<0, 0, -1>> }
ViewFrames == { f \in Axes6 \X Axes6 : Dot(f[1], f[2]) = 0 }
\* coordinate (0/1) of reference corner r along a signed axis d
Along(r, d) == LET i == CHOOSE j \in 1..3 : d[j] # 0 IN IF d[i] = 1 THEN XYZ(r)[i] ELSE 1 - XYZ(r)[i]
Expected(f) == LET o == f[1] c == f[2] xd == Cross(c, o) yd == Neg(o) zd == c IN
               [k \in 1..8 |-> CHOOSE r \in Corners : << Along(r, xd), Along(r, yd), Along(r, zd) >> = XYZ(k - 1)]
ASSUME Cardinality(ViewFrames) = 24
\* the canonical numbering is always a rotation of the reference numbering (right-handed)
ASSUME \A f \in ViewFrames : \E n \in RotIdx : \A k \in 1..8 : SymTab[n][k] = Expected(f)[k]
ViewRecord == [ frames |-> { [o |-> f[1], c |-> f[2], expected |-> Expected(f)] : f \in ViewFrames },
                numberings |-> [n \in 1..48 |-> [k \in 1..8 |-> SymTab[n][k]]] ]
ViewEmit == PrintT(ToJson(ViewRecord))
=============================================================================
