#!/bin/sh
# run every claimed check's thorough tier once (evidence untouched); report exit codes and times
cd "$(dirname "$0")/.." || exit 2
# usage: thorough_all.sh [seed] [properties...]
seed=${1:-0}; [ $# -gt 0 ] && shift
props="$*"; [ -z "$props" ] && props=$(python3 -c "import json;print(' '.join(c['property_id'] for c in json.load(open('MANIFEST.json'))['checks']))")
for p in $props; do
  start=$(date +%s)
  out=$(VERIF_SEED=$seed VERIF_NO_EVIDENCE=1 timeout 3600 ./check $p --tier thorough 2>&1); rc=$?
  echo "$p rc=$rc $(( $(date +%s) - start ))s $(echo "$out" | tail -1)"
  if [ $rc -ne 0 ]; then echo "$out" | grep "VIOLATION\|MACHINERY\|Error" | head -5; fi
done
