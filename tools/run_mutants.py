#!/usr/bin/env python3
"""Apply each canary mutation (selftest/mutants/<prop>_<name>.patch) to a scratch worktree of /repo
(outside /repo and /verif), run the property's check against it and report caught/missed.
usage: run_mutants.py [--tests] [--tier quick] [pattern ...]"""
import glob, os, subprocess, sys, shutil, json, time

VERIF = os.path.dirname(os.path.dirname(os.path.abspath(__file__)))

def sh(cmd, **kw):
    return subprocess.run(cmd, shell=True, capture_output=True, text=True, **kw)

def main():
    args = [a for a in sys.argv[1:] if not a.startswith("--")]
    run_tests = "--tests" in sys.argv
    tier = "quick"
    patches = sorted(glob.glob(os.path.join(VERIF, "selftest/mutants/*.patch")) + glob.glob(os.path.join(VERIF, "seeded/*/patch.diff")))
    if args:
        patches = [p for p in patches if any(a in p for a in args)]
    results = []
    for p in patches:
        name = os.path.basename(p)[:-6] if p.endswith(".patch") else os.path.basename(os.path.dirname(p))
        if p.endswith("patch.diff"):
            meta = json.load(open(os.path.join(os.path.dirname(p), "meta.json")))
            props = meta["property"] if isinstance(meta["property"], list) else [meta["property"]]
        else:
            props = [name.split("_")[0].upper()]
        wt = f"/tmp/mut_{os.getpid()}_{name}"
        sh(f"git -C /repo worktree add -q --detach {wt} HEAD")
        try:
            r = sh(f"git -C {wt} apply {p}")
            if r.returncode != 0:
                results.append((name, "PATCH-FAILED", r.stderr.strip()[:100]))
                continue
            tests = ""
            if run_tests:
                t = sh(f"cd {wt} && PYTHONPATH={wt}/src /venv/bin/python -m pytest -q -p no:cacheprovider -q --deselect tests/test_construct/test_curves/test_interpolated.py::SplineInterpolatedCurveTests::test_length 2>&1 | tail -15")
                failed = [l for l in t.stdout.splitlines() if l.startswith("FAILED") and "SplineInterpolatedCurveTests::test_length" not in l]
                tests = "tests-fail" if failed else "tests-pass"
            for prop in props:
                t0 = time.time()
                c = sh(f"cd {VERIF} && VERIF_REPO={wt} VERIF_NO_EVIDENCE=1 ./check {prop} --tier {tier}")
                status = {0: "MISSED", 1: "caught", 2: "MACHINERY"}.get(c.returncode, f"exit{c.returncode}")
                first = [l for l in c.stdout.splitlines() if l.startswith("VIOLATION")][:1]
                results.append((name, f"{prop}:{status}", tests + " " + (first[0].split("#")[-1].strip()[:90] if first else c.stderr.strip()[-120:]) + f" ({time.time()-t0:.0f}s)"))
        finally:
            sh(f"git -C /repo worktree remove --force {wt}")
            shutil.rmtree(wt, ignore_errors=True)
    for r in results:
        print("%-40s %-16s %s" % r)
    return 0

if __name__ == "__main__":
    sys.exit(main())
