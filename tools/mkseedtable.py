#!/usr/bin/env python3
"""Rewrites the table of independently seeded changes in DESIGN.md (section 8.1) from seeded/*/meta.json."""
import glob, json, os, re

VERIF = os.path.dirname(os.path.dirname(os.path.abspath(__file__)))
HEAD = "| seeded change | what it needs to manifest | caught by (first violation signature) |\n|---|---|---|\n"


def main():
    rows = []
    for f in sorted(glob.glob(os.path.join(VERIF, "seeded/*/meta.json"))):
        m = json.load(open(f))
        r = m["ran"]
        viol = r.get("check_first_violations") or []
        sig = viol[0].split(": ")[0] if viol else "-"
        needs = m["needs_to_manifest"].replace("|", "/").replace("\n", " ")
        rows.append(f"| `{m['id']}` | {needs} | `{m.get('caught_by')}` ({r.get('check_wall_s')} s): `{sig}` |\n")
    p = os.path.join(VERIF, "DESIGN.md")
    s = open(p).read()
    start = s.index(HEAD)
    end = s.index("\n\n", start)
    s = s[:start] + HEAD + "".join(rows).rstrip("\n") + s[end:]
    open(p, "w").write(s)
    print(len(rows), "rows;", sum(1 for r in rows if "`None`" in r), "not caught")


if __name__ == "__main__":
    main()
