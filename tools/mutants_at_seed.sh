#!/bin/sh
# mutants_at_seed.sh <seed> [patterns...]: run every canary and seeded change against its property's quick check with VERIF_SEED=<seed>
cd "$(dirname "$0")/.."
seed=$1; shift
VERIF_SEED=$seed python3 tools/run_mutants.py "$@" 2>&1 | grep -E "caught|MISSED|PATCH-FAILED" | sed "s/^/seed=$seed /"
