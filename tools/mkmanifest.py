#!/usr/bin/env python3
"""Regenerates MANIFEST.json from the table below (one entry per claimed property)."""
import json, os

VERIF = os.path.dirname(os.path.dirname(os.path.abspath(__file__)))

CHECKS = {
    "C01": dict(
        text="TLC model-checks Grading.tla (operational grade/propagate/check algorithm against the declarative family "
             "statement) over all enumerated topologies, corner numberings and covering/conflicting chop placements; every "
             "enumerated configuration is replayed into Mesh.write() under forced set-iteration schedules and the parsed "
             "file / exception class compared with the specification's outcome; random real-shape assemblies are recorded "
             "and judged by TLC (GradingJudge.tla).",
        note="Trusted: the blockMeshDict parser (harness/bmd.py), the lattice abstraction (positions -> lattice ids), "
             "TLC. Bounded: <=4 blocks in the enumerated part, real shapes only sampled.",
        technique="TLA+ spec Grading.tla + TLC exhaustive check; spec-generated configurations replayed into the code; "
                  "recorded executions judged by TLC (GradingJudge.tla)",
        ref="DESIGN.md section 4 C01, Appendix A"),
    "C02": dict(
        text="TLC checks the progress bound, termination under weak fairness, completeness and outcome of the propagation "
             "loop for every iteration order of the neighbour/coincident sets, insertion order and numbering in the bounded "
             "model; the same configurations are replayed into the code under forced schedules with a step budget, files "
             "compared across schedules; random assemblies judged by TLC.",
        note="Schedule control replaces Axis.neighbours / Wire.coincidents by a set subclass with a chosen iteration order "
             "(no source hook). Set iteration of the int worklist is over-approximated in the model.",
        technique="TLA+ spec Grading.tla: safety + liveness (WF) by TLC; schedule-forcing replay of spec configurations; "
                  "TLC trace judging of recorded executions",
        ref="DESIGN.md section 4 C02, Appendix A"),
    "C12": dict(
        text="Mesh.tla models the life cycle (add/delete/assemble/move/backport/clear/modify_patch/set_default_patch/"
             "merge_patches/write) and states, for every write, the freshly built model the file must equal; TLC checks the "
             "design-level action properties and enumerates all histories to a length bound (plus -simulate for longer "
             "ones); every history is replayed through the real Mesh API and each written file compared (parsed, "
             "numbering-independent) with the file of the fresh model, entity points with the model's positions.",
        note="Oracle is relational: the fresh model is written by the same library; faithfulness of a single write is C06. "
             "Operations are lattice boxes with count chops; calls the statement does not speak about (add/delete/merge "
             "while assembled) are not generated.",
        technique="TLA+ spec Mesh.tla: TLC BFS/-simulate generates histories + expected fresh model; replay into the real API",
        ref="DESIGN.md section 4 C12, Appendix B"),
}

def main():
    checks = []
    for pid in sorted(CHECKS):
        c = CHECKS[pid]
        checks.append({
            "property_id": pid,
            "quick_cmd": f"./check {pid} --tier quick",
            "thorough_cmd": f"./check {pid} --tier thorough",
            "evidence_file": f"/verif/evidence/{pid}.json",
            "replay_cmd_template": f"./check {pid} --replay {{path}}",
            "engine": "tlc+replay",
            "level_claimed": {"category": "model_checking", "text": c["text"], "design_ref": c["ref"]},
            "level_note": c["note"],
            "technique": c["technique"],
        })
    props = [json.loads(l)["id"] for l in open(os.path.join(VERIF, "properties.jsonl"))]
    na = []
    for pid in props:
        if pid not in CHECKS:
            na.append({"property_id": pid, "reason": NA.get(pid, "check not built yet (work in progress); the TLA+ technique applies, see DESIGN.md section 4")})
    man = {
        "version": 1,
        "setup_cmd": "/venv/bin/python -m harness.selftest",
        "hooks": {
            "guard": "CLASSY_BLOCKS_VERIF",
            "enable": "no source hooks: instrumentation is runtime wrapping inside the harness (set subclass for schedules, counting wrappers); ./check exports CLASSY_BLOCKS_VERIF=1 for uniformity",
            "baseline_off_cmd": "cd /repo && /venv/bin/python -m pytest -ra -q -p no:cacheprovider --timeout=900 --continue-on-collection-errors",
            "source_commits": [],
            "add_only": True,
        },
        "engines": [
            {"name": "tlc+replay", "path": "/verif/check", "serves_properties": sorted(CHECKS),
             "kind_free_text": "TLA+ specifications in /verif/specs checked by TLC; spec-generated cases replayed into classy_blocks; recorded executions validated by TLC"},
        ],
        "checks": checks,
        "notes": "See DESIGN.md. Repairs of genuine defects are 'fix:' commits in /repo, listed in known_findings.json.",
        "not_applicable": na,
    }
    with open(os.path.join(VERIF, "MANIFEST.json"), "w") as f:
        json.dump(man, f, indent=1)

NA = {}

if __name__ == "__main__":
    main()
