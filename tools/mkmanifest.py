#!/usr/bin/env python3
"""Regenerates MANIFEST.json from the table below (one entry per claimed property)."""
import json, os

VERIF = os.path.dirname(os.path.dirname(os.path.abspath(__file__)))

CHECKS = {
    "C01": dict(
        text="TLC model-checks Grading.tla (operational grade/propagate/check algorithm against the declarative family "
             "statement) over all enumerated topologies, corner numberings and covering/conflicting chop placements; every "
             "enumerated configuration is replayed into Mesh.write() under forced set-iteration schedules and the parsed "
             "file / exception class compared with the specification's outcome; random real-shape assemblies are recorded "
             "and judged by TLC (GradingJudge.tla)."
             " Every configuration is written twice (Grading.tla Regrade action) - after an error too, which must then come again. The repository's example scripts are run unmodified as recorded executions and every dictionary they write is judged by File.tla (CountsAgree).",
        note="Trusted: the blockMeshDict parser (harness/bmd.py), the lattice abstraction (positions -> lattice ids), "
             "TLC. Bounded: <=4 blocks in the enumerated part, real shapes only sampled.",
        technique="TLA+ spec Grading.tla + TLC exhaustive check; spec-generated configurations replayed into the code; "
                  "recorded executions judged by TLC (GradingJudge.tla)",
        ref="DESIGN.md section 4 C01, Appendix A"),
    "C02": dict(
        text="TLC checks the progress bound, termination under weak fairness, completeness and outcome of the propagation "
             "loop for every iteration order of the neighbour/coincident sets, insertion order and numbering in the bounded "
             "model; the same configurations are replayed into the code under forced schedules with a step budget, files "
             "compared across schedules; a four-block chain fed from one end is checked and replayed in every insertion "
             "order; random assemblies judged by TLC."
             " A 'multi' part covers two-section chops between two blocks in six relative numberings, a 'swap4' part a row of four whose inner blocks have their first two directions swapped; cover/chain/multi/swap4 configurations are written twice (Regrade). A 'chain5' part covers a row of five with one chop per family (the two shared directions up to four blocks apart) as it stands and in two scrambled insertion orders (thorough: all 120 orders).",
        note="Schedule control replaces Axis.neighbours / Wire.coincidents by a set subclass with a chosen iteration order "
             "(no source hook). Set iteration of the int worklist is over-approximated in the model.",
        technique="TLA+ spec Grading.tla: safety + liveness (WF) by TLC; schedule-forcing replay of spec configurations; "
                  "TLC trace judging of recorded executions",
        ref="DESIGN.md section 4 C02, Appendix A"),
    "C12": dict(
        text="Mesh.tla models the life cycle (add/delete/assemble/move/backport/clear/modify_patch/set_default_patch/"
             "merge_patches/write) and states, for every write, the freshly built model the file must equal; TLC checks the "
             "design-level action properties and enumerates all histories to a length bound (plus -simulate for longer "
             "ones); every history is replayed through the real Mesh API and each written file compared (parsed, "
             "numbering-independent) with the file of the fresh model, entity points with the model's positions.",
        note="Oracle is relational: the fresh model is written by the same library; faithfulness of a single write is C06. "
             "Operations are lattice boxes; only the last of the row is chopped across (by cell size alone), the others copy from it - variant B chops the first of three as well (a model that cannot be graded must fail like its fresh model); calls the statement does not speak about (add/delete/merge "
             "while assembled) are not generated.",
        technique="TLA+ spec Mesh.tla: TLC BFS/-simulate generates histories + expected fresh model; replay into the real API",
        ref="DESIGN.md section 4 C12, Appendix B"),
    "C05": dict(
        text="Render.tla states the vertex rules relationally (positions, one vertex per position and slave-patch set, "
             "master/slave separation, dense numbering); random programs of lattice hexahedra with arbitrary corner "
             "numbering, insertion order, patches and merged pairs (incl. several pairs at one point), sub-tolerance "
             "jitter and 3*TOL twins are executed and TLC judges every recorded (program, parsed file) pair. Vertices.tla "
             "models vertex-list insertion as a state machine (Shared, Distinct, MasterSlave, Dense, OrderFree checked by "
             "TLC) and every emitted insertion sequence is replayed into Mesh.assemble()."
             " Programs may assemble+clear before merges are declared and are re-used in a second Mesh. The repository's example scripts are run unmodified as recorded executions and every dictionary they write is judged by File.tla (OnePerPoint, NoOrphans).",
        note="Trusted: blockMeshDict parser, position->id abstraction (nearest lattice point within 1e-6). Cases the "
             "statement leaves open (different non-empty slave sets at one point; a block carrying master and slave of "
             "one pair) are not generated / not judged.",
        technique="TLA+ spec Render.tla as trace acceptor (TLC evaluates C05_* clauses on recorded executions); TLA+ spec "
                  "Vertices.tla model-checked by TLC with exhaustive replay of its insertion sequences",
        ref="DESIGN.md section 4 C05"),
    "C06": dict(
        text="Render.tla defines the expected blockMeshDict sections as relations between the abstract program and the "
             "parsed file (blocks, zones, patches with types/settings/quads as 4-cycles of Hex.tla sides, projected faces, "
             "vertex projections, default patch, merge pairs, geometry, settings, index ranges, VTK); TLC judges records of "
             "random programs; side tables come from Hex.tla (derived from coordinates), never from the library."
             " Vertex projections are judged exactly (no undeclared label), programs may assemble+clear first and their operations are re-used in a second Mesh. The repository's example scripts are run unmodified as recorded executions and every dictionary they write is judged by File.tla (indices, patch and projected quads, labels defined).",
        note="Counts/gradings are judged by C01-C04, edges by C07. Built-in geometry definition is judged on Hemisphere records.",
        technique="TLA+ spec Render.tla + Hex.tla as trace acceptor over recorded program executions",
        ref="DESIGN.md section 4 C06, Appendix B"),
    "C07": dict(
        text="Render.tla C07_* clauses: every entry lies on a block edge, one entry per vertex pair, every writable user "
             "edge (given between two positions with a data direction) is realised with its kind/data and a drawn curve "
             "consistent with the entry's vertex order, lines/collinear arcs absent; programs put all edge kinds on all 12 "
             "positions of operations whose faces are used as given, inverted, shifted or re-oriented, and define edges twice."
             " Swept programs: a Revolve in general position followed by operation-level invert/copy/translate/rotate/scale/mirror, judged by the same clauses. The repository's example scripts are run unmodified as recorded executions and every dictionary they write is judged by File.tla (EdgesOnBlocks, EdgesOnce).",
        note="The harness decodes edge data geometrically (which user data id, drawn curve = user's curve?) with its own "
             "arc formulas; OnCurve edges are C16's.",
        technique="TLA+ spec Render.tla as trace acceptor; edge direction via predicate abstraction",
        ref="DESIGN.md section 4 C07"),
    "C10": dict(
        text="Render.tla C10_* clauses judge recorded face manipulations step by step (invert reverses the cyclic order, "
             "shift keeps it, reorient additionally starts at the nearest point; every edge still joins its two points), "
             "faces obtained by side name, and - through the written file - that patches, projected sides, edges and "
             "corners addressed by side name / corner numbers land on the Hex.tla side/edge/corner.",
        note="Hex.tla is the reference for the hexahedron convention; its tables are compared with the Python mirror at setup.",
        technique="TLA+ specs Hex.tla/Render.tla as trace acceptor over recorded face histories and written files",
        ref="DESIGN.md section 4 C10"),
    "C03": dict(
        text="Chop.tla enumerates exact geometric progressions (integer cell sizes, rational ratios) with all five exact "
             "quantities and off-boundary twins, and TLC checks the closure loop (every pair of inputs reaches all five "
             "values in <= 3 relation applications; exact closed-form identities); the implementation is evaluated on every "
             "instance x 10 pairs x scales and compared with the exact values (count sets on ties), the realised cell sizes "
             "decoded with blockMesh's law; every call's relation sequence is validated by ChopTrace.tla."
             " Chop.tla ReverseLaw (the reversed instance is the instance with p and q swapped; Rev(Rev(i)) = i) is checked by TLC and replayed: inverted chops for every pair, .inverted twice with the original re-read.",
        note="TLC covers counts <= 9 and ratios p/q with p,q <= 4 (32-bit integers); counts to 200, ratios in [0.5,2] and "
             "the 1+-1e-7 neighbourhood are covered by harness-side continuation of the same law on real-valued inputs. "
             "Requests whose (implied) cell size reaches the edge length may be rejected.",
        technique="TLA+ spec Chop.tla (exact instances + closure state machine) by TLC; instance evaluation against the code; "
                  "ChopTrace.tla trace validation of relation applications",
        ref="DESIGN.md section 4 C03, Appendix D"),
    "C04": dict(
        text="Grading.tla (invariant SharedSame: coincident wires carry the same section list, reversed and inverted when "
             "anti-aligned) is model-checked and enumerates topology x numbering x chop placement; every configuration is "
             "built on a warped lattice with size/ratio-preserving laws, written under a random schedule, decoded per edge "
             "with blockMesh's multi-grading law; SizesJudge.tla (TLC) decides each record: same physical cell sequence from "
             "every block sharing an edge, preserved size/ratio on every wire of the chop's family at the geometrically "
             "same end (orientation propagated through the recorded topology). Round shapes with arcs/splines likewise."
             " Half of the lattice configurations use a product grid with one displaced vertex (exactly one of four parallel edges differs). The repository's example scripts are run unmodified as recorded executions and every dictionary they write is judged by File.tla (SizesJudge SharedSeq). Every lattice configuration without arcs is written a second time after one mesh vertex was moved (no backport) and the second file is judged the same way.",
        note="Sizes are abstracted to integer codes round(1e6 ln(size)) and compared with tolerance 3e-5; spline edge lengths "
             "are polyline approximations (only used for equality between blocks). Families with two different user laws are "
             "not generated (the statement does not say which law wins).",
        technique="TLA+ specs Grading.tla (TLC exhaustive) + SizesJudge.tla (TLC trace acceptor over decoded cell sizes)",
        ref="DESIGN.md section 4 C04"),
    "C08": dict(
        text="Arc.tla enumerates exact arcs (lattice points on circles x2+y2=R2 in integer orthogonal frames; triples with an "
             "exact mid point; integer dot/cross products fixing the included angle) and TLC checks the mid-point/reflection "
             "identities; every instance is mapped by a random similarity and AngleEdge (both signs), OriginEdge, ArcEdge and "
             "arc_length_3point are compared with the exact mid point and R*theta; chord bound for every edge kind."
             " The same edge object is re-evaluated after both vertices moved (exact: the arc scaled about its centre). Nearly half circles (included angle or its complement above 174 degrees) come from lattice pairs of radius 325 with a rational far end.",
        note="Only angles with rational sine/cosine are exact instances (Pythagorean triples of radius 5 and 25, pairs of radius 325); arbitrary "
             "orientation and radius come from the similarity. Origin arcs are judged as the minor arc (flatness 1).",
        technique="TLA+ spec Arc.tla/Lattice.tla: TLC-enumerated exact instances with spec-level identities; instance evaluation "
                  "of the implementation under similarity conjugation",
        ref="DESIGN.md section 4 C08"),
    "C14": dict(
        text="Quality.tla supplies a catalogue of lattice cells and the orientation-preserving renumberings computed from "
             "Hex.tla's symmetry group (ASSUMEs check they are 24 distinct bijections); the implementation's quality is "
             "evaluated for every renumbering, under random rigid motions and scalings, with and without a neighbour, and for "
             "stretched cubes; TLC judges the recorded values: equal within tolerance inside every orbit, non-decreasing and "
             "direction-independent under stretching."
             " The neighbour cell's value and the same grid object after a rigid motion through GridBase.update are recorded as well; neighbours are straight and bent, in all 24 x 24 numberings of the pair.",
        note="Values are abstracted to integer codes round(1e7 ln(1+q)); tolerance 5 codes for renumbering/rigid motion, "
             "0.1 in ln(1+q) for the loose scaling family (sizes >= 1); the strict scaling statement is a known finding "
             "(guard VSMALL inside arccos).",
        technique="TLA+ spec Quality.tla: symmetry-group generator + TLC judge of recorded quality values (rank/equality abstraction)",
        ref="DESIGN.md section 4 C14"),
    "C16": dict(
        text="Curve.tla enumerates exact lattice polylines with integer segment lengths (uneven spacing), the exact point at "
             "rational arc lengths and the exact length between them, and TLC checks the specification's own additivity/knot "
             "identities; under random similarities the implementation's Linear/Spline/Discrete curves (get_point, "
             "discretize and get_length in either order, additivity, closest parameter vs 400 samples) and curve-snapped "
             "edges (points on the curve between the vertices' parameters, length) are compared with those exact values; "
             "circle and line curves are evaluated on Arc.tla's exact circle instances."
             " OnCurve edges are re-evaluated after their vertices were slid along the curve; on custom bounds stretches are given by explicit parameters (0 as int, float and numpy number among them).",
        note="Spline interiors are constrained only by relations (through defining points, additivity at defining points, "
             "length >= polyline); analytic lengths to 2e-4 relative (100-point discretisation). The closest-parameter "
             "clause is an order relation evaluated by the harness. Near misses (<10 %) and acute-corner branch confusion of "
             "the sampling search are known findings.",
        technique="TLA+ spec Curve.tla (+Arc.tla): TLC-enumerated exact instances; instance evaluation under similarity conjugation",
        ref="DESIGN.md section 4 C16"),
    "C17": dict(
        text="Links.tla enumerates exact lattice instances in integer orthogonal frames about shifted origins (feet on a "
             "line/plane, radius and height about an axis, leaders moved by quarter turns with radial/axial displacement, "
             "translations, mirror images) as short histories of one link (move, move again, move back, each update "
             "repeated) with exact expected follower positions, and TLC checks the quarter-turn, mirror and history-"
             "independence identities; every sampled instance is mapped by a random similarity and Line/Plane/Radial/Curve/Free/"
             "ParametricSurface clamps and Translation/Rotation/Symmetry links are compared with the exact values, "
             "including that update() leaves the leader as assigned. Every other instance hands its points and vectors over as arrays that are overwritten once the object exists.",
        note="Initial clamp positions come from scipy.minimize(tol=1e-7): compared to 1e-3 of the feature size; on-manifold "
             "checks to 1e-5. Rotation angles are multiples of 90 degrees in the lattice frame (arbitrary in world "
             "orientation through the similarity).",
        technique="TLA+ spec Links.tla/Lattice.tla: TLC-enumerated exact instances; instance evaluation under similarity conjugation",
        ref="DESIGN.md section 4 C17"),
    "C15": dict(
        text="Smooth.tla defines boundary points (points of a cell side owned by exactly one cell) and edge-neighbours from "
             "the cells alone, for structured quad/hex grids, unstructured O-grids and unevenly spaced L-shaped quad/hex "
             "regions (re-entrant corners), and TLC checks valences; the real "
             "SketchSmoother/MeshSmoother is run on each topology (random similarity, jittered interior, fixed sets by index "
             "or position, 1 or 300 sweeps) and TLC judges each recorded run: moved points are free interior points, every "
             "free point ends at its neighbours' average; exact one-sweep average, regular-lattice recovery and copy-back "
             "consistency for every face/block sharing a point. Quad maps are also put together from two pieces by MappedSketch.merge (Merge.tla: model-checked state machine of the merge, every finished merge replayed index by index) and smoothed across the seam.",
        note="Convergence judged after 300 sweeps to 1e-6 of the cell size on grids up to 4x4 / 2x2x2 (quick).",
        technique="TLA+ spec Smooth.tla: declarative boundary/neighbour relations, TLC generator of topologies + TLC trace acceptor",
        ref="DESIGN.md section 4 C15"),
    "C13": dict(
        text="Optimizer.tla models the clamp-by-clamp protocol with an adversarial minimiser (arbitrary probes, a failure at "
             "any probe, an arbitrary quality function chosen in Init) and TLC checks exhaustively that quality never gets "
             "worse, unclamped points never move, followers stay linked, nothing stays half-applied and backport copies the "
             "final positions; real MeshOptimizer/SketchOptimizer runs (perturbed 2x2x2 assemblies, 3x3 sketches, Free/Plane/"
             "Line clamps, a translation link, four scipy methods and scripted minimisers realising the model's probe/worse/"
             "failure behaviours) are recorded step by step through runtime wrappers and accepted by TLC (OptimizerJudge.tla)."
             " Optimizer.tla has NFollow followers with link functions of their own; scenarios carry 1..5 translation links (first and last vertex included) or a RadialClamp with RotationLinks (two fixed runs with bounded travel and the real minimiser); sketch runs include the library's quarter / half / whole spline disks.",
        note="scipy's minimisers are environment (only the protocol around them is modelled). Step outcomes are compared with "
             "tolerances 1e-7 (quality) / 1e-6 size (positions); ties within rounding accept either outcome.",
        technique="TLA+ spec Optimizer.tla (TLC exhaustive, adversarial environment) + OptimizerJudge.tla trace validation of "
                  "recorded optimize_clamp steps",
        ref="DESIGN.md section 4 C13"),
    "C18": dict(
        text="Find.tla computes in integer arithmetic the exact vertex sets of all sphere queries (integer centres, radii "
             "off every lattice distance) and plane queries (lattice points x integer normals) on a lattice mesh, and - from "
             "an observer/ceiling frame alone - the canonical numbering of a hexahedron, which TLC checks to be a rotation for "
             "all 24 frames; the lattice mesh is built under a random similarity and GeometricFinder compared with the exact "
             "sets (plus 0.3/3 x TOL twins with long/short normals), RoundSolidFinder's core/rim sets are compared with "
             "geometric predicates, and a randomly distorted convex block is re-oriented from the 48 numberings x 24 frames "
             "and from viewpoints in general position (turned line of sight, pulled ceiling point) that Find.tla decides "
             "by a clear integer margin. The same finder is asked again after every vertex moved to the mirrored lattice point.",
        note="Round-shape finder sets are decided by harness-side geometric predicates (on the end plane, at the rim radius).",
        technique="TLA+ spec Find.tla/Hex.tla/Lattice.tla: TLC-computed exact query results and canonical numberings; "
                  "replayed into the implementation under similarity conjugation",
        ref="DESIGN.md section 4 C18"),
    "C19": dict(
        text="Grid.tla states the addressing (grid[k][j][i] = column i, row j, tier k; a slice = exactly the cells with that "
             "index, each once) and TLC checks that slices partition the cells for all sizes up to 5x5x4; extruded, revolved "
             "and transformed stacks on grids with pairwise different counts in random placement are observed (cell "
             "occupied by every addressed operation, members of every slice with multiplicity, block missing from the "
             "written file after Mesh.delete(addressed)), round shapes and disk sketches as (in core, in shell, touches "
             "outer surface) per entity, and TLC judges every record."
             " Spline-round sketches (quarter/half/full) and their extrusions are recorded, with the clause ends-from-different-locations; ExtrudedStacks with an oblique amount given as list, tuple or array, operations required at the exact tier centres.",
        note="The cell an operation occupies is found by the harness from its centre against exact cell centres mapped by the "
             "harness' own rotation code. WrappedDisk has a middle ring that is neither core nor shell and is not judged.",
        technique="TLA+ spec Grid.tla: TLC-checked index arithmetic + TLC trace acceptor over observed addressing",
        ref="DESIGN.md section 4 C19"),
    "C20": dict(
        text="Precond.tla defines precondition types (index range, item count, perpendicular, positive, ratio in (0,1], "
             "below a bound, open angle, requires-assembled, unique, exists) with argument classes on both sides of every "
             "boundary; the accept/reject expectation of each (call, class) row is derived from the type and TLC checks "
             "symmetry and that both sides are exercised; a registry maps every row to a concrete call of the real API in a "
             "randomly placed setting; accepted-silently / valid-arguments-rejected are reported per row."
             " Requires preconditions are also tested in the class 'established and undone again'; LoftedShape mid-sketch lists have rows of their own; the perpendicularity rows are repeated with very short and very long axis vectors.",
        note="'Rejected' is any exception (the class is recorded in the replay). The list of guarded calls is the one the "
             "property statement enumerates; zero chain lengths are not judged.",
        technique="TLA+ spec Precond.tla: TLC-derived decision table over precondition types; replayed row by row into the API",
        ref="DESIGN.md section 4 C20"),
    "C09": dict(
        text="Xform.tla enumerates compositions of up to three exact lattice maps (translations, quarter turns about lattice "
             "axes through arbitrary origins with non-unit axes, integer scalings, mirrors in planes through arbitrary points "
             "with non-unit normals), computes exact images of probe points/vectors and the length ratio, and TLC checks every "
             "composition is a similarity; the harness' float implementation of the maps is proven against those exact images "
             "and then 24 entity kinds (point, faces/operations with every edge kind, sketch shapes, round shapes, rings, "
             "hemisphere, stacks, a joint, five curve types) are transformed by method calls or transformation lists and "
             "their output geometry (vertices, arc third points, spline points, edge lengths) compared with the image of the "
             "original's; copy() equivalence/independence, a copied hemisphere's geometry, helper argument immutability."
             " Operation.invert() and constructor inputs (arrays stay the caller's, those of update() too) are covered; compositions are stratified by the number of mirrors and the style.",
        note="Rotation angles are multiples of 90 degrees and scale ratios integers (exactness on the lattice); axes, normals "
             "and origins are non-unit / non-zero. Angle edges in the fixtures have axes perpendicular to their chords "
             "(the library's arc construction is not reversal-invariant for inconsistent angle/axis data).",
        technique="TLA+ spec Xform.tla/Lattice.tla: TLC-enumerated exact affine maps and images; metamorphic replay into the API",
        ref="DESIGN.md section 4 C09"),
    "C11": dict(
        text="Every shape class, sketch-based shape (disk, oval, wrapped, spline sketches), stack and joint, alone and in "
             "chains (chain/expand/contract/fill), is built in random placement/size/segment count, chopped with its "
             "documented chop calls, assembled and written; TLC (Blocking.tla) judges the recorded vertex indexes: no quad is "
             "a side of more than two blocks, blocks sharing >= 3 vertices share a whole side, connected through common "
             "sides, positive corner Jacobians, class vertex count, outer arcs on the intended circle/cone, writing succeeds, "
             "chained shapes share exactly the interface vertices."
             " Revolved operations are also PLACED by the library's own transformations; three further placements per kind are assembled and judged. The repository's example scripts are run unmodified as recorded executions and every dictionary they write is judged by File.tla (RightHanded, WholeSides, SidesTwice; each example must run). Shell.tla (the shared-point store as a state machine: Unique, Owners, Covers, Stable, Conformal, Outward) is model-checked over every ordered list of up to three outer sides of two unit cubes and every emitted store replayed into the real Shell (offset corners, refusal of disconnected lists, vertex count of the written shell).",
        note="Jacobian signs and arc-on-circle are harness predicates over vertex positions (Hex.tla convention); vertex-count "
             "formulas are given for the classes where the statement implies one. Fixtures choose senses of rotation that "
             "carry faces along their normals.",
        technique="TLA+ spec Blocking.tla/Hex.tla as trace acceptor over recorded assemblies (topological clauses evaluated by TLC); Shell.tla model-checked by TLC and its emitted stores replayed into the code",
        ref="DESIGN.md section 4 C11"),
}

def main():
    checks = []
    for pid in sorted(CHECKS):
        c = CHECKS[pid]
        checks.append({
            "property_id": pid,
            "quick_cmd": f"./check {pid} --tier quick",
            "thorough_cmd": f"./check {pid} --tier thorough",
            "evidence_file": f"/verif/evidence/{pid}.json",
            "replay_cmd_template": f"./check {pid} --replay {{path}}",
            "engine": "tlc+replay",
            "level_claimed": {"category": "model_checking", "text": c["text"], "design_ref": c["ref"]},
            "level_note": c["note"],
            "technique": c["technique"],
        })
    props = [json.loads(l)["id"] for l in open(os.path.join(VERIF, "properties.jsonl"))]
    na = []
    for pid in props:
        if pid not in CHECKS:
            na.append({"property_id": pid, "reason": NA.get(pid, "check not built yet (work in progress); the TLA+ technique applies, see DESIGN.md section 4")})
    man = {
        "version": 1,
        "setup_cmd": "/venv/bin/python -m harness.selftest",
        "hooks": {
            "guard": "CLASSY_BLOCKS_VERIF",
            "enable": "no source hooks: instrumentation is runtime wrapping inside the harness (set subclass for schedules, counting wrappers); ./check exports CLASSY_BLOCKS_VERIF=1 for uniformity",
            "baseline_off_cmd": "cd /repo && /venv/bin/python -m pytest -ra -q -p no:cacheprovider --timeout=900 --continue-on-collection-errors",
            "source_commits": [],
            "add_only": True,
        },
        "engines": [
            {"name": "tlc+replay", "path": "/verif/check", "serves_properties": sorted(CHECKS),
             "kind_free_text": "TLA+ specifications in /verif/specs checked by TLC; spec-generated cases replayed into classy_blocks; recorded executions validated by TLC"},
        ],
        "checks": checks,
        "notes": "See DESIGN.md. Repairs of genuine defects are 'fix:' commits in /repo, listed in known_findings.json.",
        "not_applicable": na,
    }
    with open(os.path.join(VERIF, "MANIFEST.json"), "w") as f:
        json.dump(man, f, indent=1)

NA = {}

if __name__ == "__main__":
    main()
