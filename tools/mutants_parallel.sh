#!/bin/sh
# mutants_parallel.sh <seed>: as mutants_at_seed.sh, five groups of properties side by side (scratch worktrees under /tmp)
cd "$(dirname "$0")/.."
seed=$1
grp() { pats=""; for p in "$@"; do l=$(echo $p | tr 'C' 'c'); pats="$pats /${p}_ /${l}_"; done; VERIF_SEED=$seed python3 tools/run_mutants.py $pats 2>&1 | grep -E "caught|MISSED|PATCH-FAILED" | sed "s/^/seed=$seed /"; }
grp C01 C20 C19 & grp C02 C18 C17 & grp C04 C05 C03 & grp C06 C07 C08 C09 C10 C16 & grp C11 C12 C13 C14 C15 &
wait
