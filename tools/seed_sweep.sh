#!/bin/sh
# run every claimed check's quick tier for several seeds; report non-zero exits (evidence untouched)
cd "$(dirname "$0")/.." || exit 2
for seed in "$@"; do
  for p in $(python3 -c "import json;print(' '.join(c['property_id'] for c in json.load(open('MANIFEST.json'))['checks']))"); do
    out=$(VERIF_SEED=$seed VERIF_NO_EVIDENCE=1 ./check $p --tier quick 2>&1); rc=$?
    echo "seed=$seed $p rc=$rc $(echo "$out" | tail -1)"
    if [ $rc -ne 0 ]; then echo "$out" | grep "VIOLATION\|MACHINERY" | head -5; fi
  done
done
