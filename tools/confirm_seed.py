#!/usr/bin/env python3
"""confirm_seed.py <seed-id> <property> <agent-worktree> "<what it needs to manifest>"
Copies patch.diff / demo.py of an independently produced breaking change into /verif/seeded/<seed-id>/, confirms it in a
fresh scratch worktree of /repo (demo passes without, fails with the change; unit tests still pass) and runs the property's
quick check against the changed tree. Writes meta.json."""
import json, os, shutil, subprocess, sys, time

VERIF = os.path.dirname(os.path.dirname(os.path.abspath(__file__)))
DESELECT = "--deselect tests/test_construct/test_curves/test_interpolated.py::SplineInterpolatedCurveTests::test_length"


def sh(cmd):
    return subprocess.run(cmd, shell=True, capture_output=True, text=True)


def main():
    sid, prop, src, needs = sys.argv[1], sys.argv[2], sys.argv[3], sys.argv[4]
    tier = sys.argv[5] if len(sys.argv) > 5 else "quick"
    dst = os.path.join(VERIF, "seeded", sid)
    os.makedirs(dst, exist_ok=True)
    if src != "-":       # "-": confirm again what is in seeded/<id> already
        for f in ("patch.diff", "demo.py"):
            shutil.copy(os.path.join(src, f), os.path.join(dst, f))
    wt = f"/tmp/cs_{sid}"
    sh(f"git -C /repo worktree remove --force {wt}; git -C /repo worktree prune; git -C /repo worktree add -q --detach {wt} HEAD")
    meta = {"id": sid, "property": prop, "needs_to_manifest": needs, "ran": {}}
    try:
        demo = os.path.join(dst, "demo.py")
        import re
        text = re.sub(r"/tmp/s[a-z]_C\d\d", wt, open(demo).read()) if src == "-" else open(demo).read().replace(src, wt)
        demo_wt = os.path.join(wt, "demo_seed.py")
        open(demo_wt, "w").write(text)
        r0 = sh(f"cd {wt} && PYTHONPATH={wt}/src timeout 600 /venv/bin/python demo_seed.py")
        meta["ran"]["demo_without_change_exit"] = r0.returncode
        a = sh(f"git -C {wt} apply {dst}/patch.diff")
        meta["ran"]["patch_applies"] = a.returncode == 0
        r1 = sh(f"cd {wt} && PYTHONPATH={wt}/src timeout 600 /venv/bin/python demo_seed.py")
        meta["ran"]["demo_with_change_exit"] = r1.returncode
        t = sh(f"cd {wt} && PYTHONPATH={wt}/src /venv/bin/python -m pytest -q -p no:cacheprovider {DESELECT} 2>&1 | tail -4")
        failed = [l for l in t.stdout.splitlines() if l.startswith("FAILED")]
        # ComplexSketchTests::test_optimize fails about 1 time in 12 on the unchanged tree too: keep only repeatable failures
        steady = []
        for l in failed:
            tid = l.split()[1]
            again = [sh(f"cd {wt} && PYTHONPATH={wt}/src /venv/bin/python -m pytest -q -p no:cacheprovider {tid} 2>&1 | tail -1").stdout for _ in range(3)]
            if all("failed" in a for a in again):
                steady.append(l)
        failed = steady
        meta["ran"]["unit_tests_failed"] = failed
        t0 = time.time()
        c = sh(f"cd {VERIF} && VERIF_REPO={wt} VERIF_NO_EVIDENCE=1 ./check {prop} --tier {tier}")
        viol = [l.split('#', 1)[-1].strip() for l in c.stdout.splitlines() if l.startswith("VIOLATION")]
        meta["ran"]["check"] = f"VERIF_REPO=<scratch worktree with the patch> ./check {prop} --tier {tier}"
        meta["ran"]["check_exit"] = c.returncode
        meta["ran"]["check_wall_s"] = round(time.time() - t0)
        meta["ran"]["check_first_violations"] = viol[:3]
        meta["caught_by"] = f"./check {prop} --tier {tier}" if c.returncode == 1 else None
    finally:
        sh(f"git -C /repo worktree remove --force {wt}")
        shutil.rmtree(wt, ignore_errors=True)
    json.dump(meta, open(os.path.join(dst, "meta.json"), "w"), indent=1)
    print(json.dumps(meta, indent=1))


if __name__ == "__main__":
    main()
